"""Path exploration driver (stateless DFS over decision prefixes) and result records."""
import time
import traceback
import z3

from .executor import Executor, Unsupported, RustPanic, Infeasible, BoundExceeded
from .values import INT_BITS, norm


class Violation(Exception):
    def __init__(self, msg, witness=None, extra=None):
        Exception.__init__(self, msg)
        self.msg = msg
        self.witness = witness or {}
        self.extra = extra


def witness_of(ex, model):
    out = {}
    for name, c, ty in ex.inputs:
        v = model.eval(c, model_completion=True)
        if ty == 'bool':
            out[name] = bool(z3.is_true(v))
        else:
            out[name] = norm(ty, v.as_long())
    return out


def check(ex, cond, msg, extra=None):
    """Property assertion: `cond` must hold for every input on this path.

    Quick in-process attempt first; if z3's incremental core cannot decide it within a few seconds the
    query goes to the external portfolio (z3 5.x non-incremental, cvc5 bit-blasting, cvc5 int-blasting)."""
    from .values import simp
    cond = simp(cond)
    if cond is True:
        return
    if cond is not False and not ex.env.get('eager_checks'):
        # recorded now, discharged in one query when the path ends (every sibling path passes through
        # the same obligation, so deciding it under each final path condition covers pc-at-this-point)
        ex.obligations.append((cond, msg, extra))
        return
    _decide(ex, cond, msg, extra)


def discharge(ex):
    obs = ex.obligations
    ex.obligations = []
    if not obs:
        return
    if len(obs) == 1:
        return _decide(ex, *obs[0])
    allc = z3.And([c for c, _, _ in obs])
    try:
        _decide(ex, allc, 'obligations', None)
        return
    except Violation:
        pass
    for c, msg, extra in obs:
        _decide(ex, c, msg, extra)
    raise BoundExceeded('conjunction of obligations refuted but no single obligation is')


def _decide(ex, cond, msg, extra):
    from . import portfolio
    neg = z3.Not(cond) if not isinstance(cond, bool) else z3.BoolVal(True)
    ex.solver.set('timeout', ex.env.get('quick_ms', 3000))
    try:
        t = time.time()
        ex.queries += 1
        r = ex.solver.check(neg)
        ex.solver_s += time.time() - t
    finally:
        ex.solver.set('timeout', 60000)
    if r == z3.unsat:
        return
    if r == z3.sat:
        m = ex.solver.model()
        raise Violation(msg, witness_of(ex, m), _extra(extra, m))
    s = z3.Solver()
    s.add(ex.solver.assertions())
    s.add(neg)
    names = [n for n, c, ty in ex.inputs]
    st, who, model, dt = portfolio.solve(s.sexpr(), ex.env.get('hard_timeout', 300), names,
                                         crosscheck=bool(ex.env.get('crosscheck')))
    if st == 'disagree':
        raise BoundExceeded('solvers disagree on a property query (%s)' % who)
    ex.queries += 1
    ex.solver_s += dt
    ex.env.setdefault('covers', {})
    ex.notes.append('portfolio:%s:%s:%.1fs' % (st, who, dt))
    if st == 'unsat':
        return
    if st == 'sat':
        wit = {}
        for n, c, ty in ex.inputs:
            v = (model or {}).get(n, 0)
            wit[n] = bool(v) if ty == 'bool' else norm(ty, int(v))
        ext = None
        if callable(extra):
            # rebuild a z3 model by pinning the inputs
            s2 = z3.Solver()
            s2.add(ex.solver.assertions())
            for n, c, ty in ex.inputs:
                if ty == 'bool':
                    s2.add(c == bool(wit[n]))
                else:
                    s2.add(c == z3.BitVecVal(wit[n], INT_BITS[ty]))
            if s2.check() == z3.sat:
                ext = _extra(extra, s2.model())
        elif extra is not None:
            ext = extra
        raise Violation(msg, wit, ext)
    raise BoundExceeded('no solver decided the property query within %ds' % ex.env.get('hard_timeout', 300))


def _extra(extra, m):
    if not callable(extra):
        return extra
    try:
        return extra(m)
    except TypeError:
        return extra()


class Result:
    def __init__(self):
        self.paths = 0
        self.ok = 0
        self.infeasible = 0
        self.violations = []      # dicts
        self.inconclusive = []    # strings
        self.panics = 0
        self.queries = 0
        self.solver_s = 0.0
        self.steps = 0
        self.wall_s = 0.0
        self.samples = []
        self.covers = {}

    def merge(self, o):
        self.paths += o.paths
        self.ok += o.ok
        self.infeasible += o.infeasible
        self.violations += o.violations
        self.inconclusive += o.inconclusive
        self.panics += o.panics
        self.queries += o.queries
        self.solver_s += o.solver_s
        self.steps += o.steps
        self.wall_s += o.wall_s
        for s in o.samples:
            if len(self.samples) < 6:
                self.samples.append(s)
        for k, v in o.covers.items():
            self.covers[k] = self.covers.get(k, 0) + v
        return self


def explore(world, harness, max_paths=200000, panic_is_violation=True, stop_at_first=False, prefix=None,
            step_limit=200000, time_budget=None, sample_fn=None, frontier=None, split_after=None):
    """Run `harness(ex)` on every feasible path. Returns Result."""
    res = Result()
    t0 = time.time()
    prefix = list(prefix or [])
    base = len(prefix)
    while True:
        ex = Executor(world, prefix, step_limit=step_limit)
        status = 'ok'
        try:
            try:
                sample = harness(ex)
            except (RustPanic, Violation):
                # obligations recorded before the abnormal end still have to hold
                discharge(ex)
                raise
            discharge(ex)
            res.ok += 1
            if sample is not None and len(res.samples) < 6:
                res.samples.append(sample)
        except Infeasible:
            res.infeasible += 1
        except Violation as v:
            res.violations.append({'msg': v.msg, 'witness': v.witness, 'extra': v.extra,
                                   'trace': [list(t) for t in ex.trace]})
        except RustPanic as p:
            res.panics += 1
            if panic_is_violation:
                m = ex.model_for(True)
                res.violations.append({'msg': 'panic: %s' % p.msg, 'where': p.where,
                                       'witness': witness_of(ex, m) if m is not None else {},
                                       'extra': ex.env.get('witness_extra'),
                                       'trace': [list(t) for t in ex.trace]})
        except (Unsupported, BoundExceeded) as u:
            res.inconclusive.append('%s: %s' % (type(u).__name__, u))
        except RecursionError:
            res.inconclusive.append('RecursionError')
        for k, v in ex.env.get('covers', {}).items():
            res.covers[k] = res.covers.get(k, 0) + v
        res.paths += 1
        res.queries += ex.queries
        res.solver_s += ex.solver_s
        res.steps += ex.steps
        if stop_at_first and (res.violations or res.inconclusive):
            break
        if len(res.inconclusive) > 20:
            break
        tr = ex.trace
        while len(tr) > base and tr[-1][0] + 1 >= tr[-1][1]:
            tr.pop()
        if len(tr) <= base:
            break
        tr[-1] = list(tr[-1])
        tr[-1][0] += 1
        prefix = tr
        if res.paths >= max_paths or (frontier is not None and split_after and time.time() - t0 > split_after):
            if frontier is not None:
                # hand the unexplored siblings back to the scheduler
                for i in range(base, len(tr)):
                    lo = tr[i][0] + (0 if i == len(tr) - 1 else 1)
                    for alt in range(lo, tr[i][1]):
                        e = list(tr[i])
                        e[0] = alt
                        frontier.append([list(x) for x in tr[:i]] + [e])
                break
            res.inconclusive.append('path budget %d exhausted' % max_paths)
            break
        if time_budget and time.time() - t0 > time_budget:
            res.inconclusive.append('time budget %ds exhausted' % time_budget)
            break
    res.wall_s = time.time() - t0
    return res


def replay_native(world, harness, violation, runner):
    """Re-run the violating path with the inputs pinned to the witness and the *real build* substituted
    for the MIR execution of the operator under test (`runner(kind, args) -> {'dev':..,'release':..}`).
    Returns (confirmed, detail)."""
    details = {}
    confirmed = False
    for prof in ('dev', 'release'):
        ex = Executor(world, violation['trace'])
        ex.env['pin'] = dict(violation.get('witness') or {})
        ex.env['native'] = (runner, prof)
        ex.env['eager_checks'] = True
        try:
            harness(ex)
            details[prof] = 'real build satisfies the property on this input (%s)' % (ex.env.get('native_out'),)
        except Violation as v:
            confirmed = True
            details[prof] = 'CONFIRMED: %s; native output: %s' % (v.msg, ex.env.get('native_out'))
        except RustPanic as p:
            confirmed = True
            details[prof] = 'CONFIRMED: panic %s' % p.msg
        except Infeasible:
            details[prof] = 'replay path infeasible (witness does not drive this path)'
        except (Unsupported, BoundExceeded) as u:
            details[prof] = 'replay inconclusive: %s' % u
        if 'native_used' not in ex.env:
            details[prof] = 'no native execution available for this harness (model-only re-run: %s)' % details[prof]
            confirmed = False
    return confirmed, details
