"""Harness-side helpers: building crate values, symbolic stream scripts, the nondeterministic
upstream operator, and the oracles shared by several properties."""
import z3

from .values import Int, Agg, Enum, Ref, SliceRef, FnItem, Opaque, UNINIT, is_sym, simp, mk_int, unit, deep_copy
from .executor import PyObj, Unsupported, RustPanic, Infeasible
from .models import some, none, zbool, deref
from .explore import check, Violation

SE = 'operator::StreamElement'
SE_VARIANTS = {'Item': 0, 'Timestamped': 1, 'Watermark': 2, 'FlushBatch': 3, 'Terminate': 4, 'FlushAndRestart': 5}


def mk_struct(w, base, hint=None, **fields):
    names = w.src.struct_fields(base, hint)
    if names is None or isinstance(names, int):
        raise Unsupported('struct fields of %s' % base)
    missing = [n for n in names if n not in fields]
    extra = [n for n in fields if n not in names]
    if missing or extra:
        raise Unsupported('mk_struct %s: missing %s extra %s' % (base, missing, extra))
    return Agg('struct', hint or base, [fields[n] for n in names], list(names))


def coord(w, b, h, r):
    return mk_struct(w, 'Coord', 'network::Coord', block_id=Int('u64', b), host_id=Int('u64', h),
                     replica_id=Int('u64', r))


def se(variant, *fields):
    return Enum(SE, variant, SE_VARIANTS[variant], list(fields))


def check_se_table(w):
    """the variant numbering used above must be the crate's"""
    vs = w.src.enum_variants('StreamElement', 'operator::StreamElement')
    if dict(vs) != SE_VARIANTS:
        raise Unsupported('StreamElement variants changed: %r' % (vs,))


def opt_i64(ex, name, some_only=False):
    """a symbolic Option<i64>: forks on the variant"""
    if some_only or ex.choose(2, name + ' is_some') == 1:
        return some(ex.fresh_int('i64', name))
    return none()


def i64(v):
    return Int('i64', v)


def ts_of(el):
    """timestamp carried by a StreamElement value (or None)"""
    if el.variant == 'Timestamped':
        return el.fields[1]
    if el.variant == 'Watermark':
        return el.fields[0]
    return None


class Script:
    """A symbolic, grammar-valid element script of one upstream: a list of StreamElement values.

    `shape` is a list of iterations, each a list of kinds in {'I','T','W','B'}; FlushAndRestart ends each
    iteration and Terminate ends the script.  Payloads / timestamps are fresh symbolic values."""


def gen_script(ex, iters, max_len, kinds='ITW', payload_ty='u64', wm_contract=True, name='s',
               payload=None, min_len=0, exact_len=None, ts_span=None):
    """Nondeterministically choose a script shape (forking) and fill it with symbolic data.

    With `wm_contract`, timestamps respect the watermark contract inside each iteration
    (elements after Watermark(t) have ts > t, watermarks strictly increase)."""
    out = []
    k = 0
    base = None
    if ts_span is not None:
        # all timestamps of the script lie in [base, base + ts_span) for one symbolic base: keeps loops whose
        # trip count depends on timestamp distances bounded
        if isinstance(ts_span, tuple):
            base, ts_span = Int('i64', ts_span[0]), ts_span[1]
        else:
            base = ex.fresh_int('i64', '%s_base' % name)
            ex.assume(z3.And(base.v > -(1 << 40), base.v < (1 << 40)))

    def fresh_ts(nm):
        t = ex.fresh_int('i64', nm)
        if base is not None:
            ex.assume(z3.And(t.v >= base.z(), t.v < base.z() + ts_span))
        return t
    for it in range(iters):
        ml = max_len[it] if isinstance(max_len, (list, tuple)) else max_len
        n = exact_len if exact_len is not None else min_len + ex.choose(ml - min_len + 1, '%s len' % name)
        last_wm = None
        pattern = None
        if kinds == 'IT/iter' and n > 0:
            # one choice per iteration: all Item, all Timestamped, or alternating
            pattern = ['I', 'T', 'TI', 'IT'][ex.choose(4 if n > 1 else 2, '%s pattern' % name)]
        for j in range(n):
            if pattern is not None:
                kind = pattern[j % len(pattern)]
            else:
                kind = kinds[ex.choose(len(kinds), '%s kind' % name)] if len(kinds) > 1 else kinds
            k += 1
            if kind == 'I':
                v = payload(ex, k) if payload else ex.fresh_int(payload_ty, '%s_v%d' % (name, k))
                out.append(se('Item', v))
            elif kind == 'T':
                v = payload(ex, k) if payload else ex.fresh_int(payload_ty, '%s_v%d' % (name, k))
                t = fresh_ts('%s_t%d' % (name, k))
                if wm_contract and last_wm is not None:
                    ex.assume(t.v > last_wm.v)
                out.append(se('Timestamped', v, t))
            elif kind == 'W':
                t = fresh_ts('%s_w%d' % (name, k))
                if wm_contract and last_wm is not None:
                    ex.assume(t.v > last_wm.v)
                last_wm = t
                out.append(se('Watermark', t))
            elif kind == 'B':
                out.append(se('FlushBatch'))
        out.append(se('FlushAndRestart'))
    out.append(se('Terminate'))
    return out


class Upstream(PyObj):
    """A harness-side `Operator` that replays a script (`next()` pops the next element)."""
    name = 'VerifUpstream'

    def __init__(self, script):
        self.script = list(script)
        self.pos = 0
        self.calls_after_terminate = 0

    def trait_call(self, ex, trait, method, args):
        if trait == 'Operator' and method == 'next':
            if self.pos >= len(self.script):
                self.calls_after_terminate += 1
                raise Violation('operator called next() on its upstream after Terminate')
            el = self.script[self.pos]
            self.pos += 1
            return deep_copy(el)
        if trait == 'Operator' and method == 'setup':
            return unit()
        if trait == 'Clone':
            u = Upstream(self.script)
            u.pos = self.pos
            return u
        raise Unsupported('VerifUpstream: %s::%s' % (trait, method))


def drive(ex, op_next, op_holder, max_out):
    """Call `next` on the operator until it returns Terminate; returns the output list."""
    out = []
    while True:
        el = ex.call_function(op_next, [Ref(op_holder, 0)])
        out.append(el)
        ex.env['last_output'] = out
        if el.variant == 'Terminate':
            return out
        if len(out) > max_out:
            raise Violation('operator produced more than %d elements without terminating' % max_out,
                            extra={'output': [repr(x) for x in out[:12]]})


def unflushed(ex):
    """the operator under test has handed data (or a watermark) downstream since the last FlushBatch /
    FlushAndRestart it returned (judged on the outputs collected by `drive`)"""
    out = ex.env.get('last_output') or []
    return bool(out) and getattr(out[-1], 'variant', None) in ('Item', 'Timestamped', 'Watermark')


def check_grammar(ex, out, n_iters, what='output'):
    """`out` matches ((Item|Timestamped|Watermark|FlushBatch)* FlushAndRestart){n_iters} Terminate"""
    kinds = [e.variant for e in out]
    ok = kinds and kinds[-1] == 'Terminate' and kinds.count('Terminate') == 1 and \
        kinds.count('FlushAndRestart') == n_iters and (len(kinds) < 2 or kinds[-2] == 'FlushAndRestart')
    if not ok and kinds and kinds[-1] == 'Terminate':
        # special shape: only FlushBatch markers between the last FlushAndRestart and Terminate
        k2 = list(kinds[:-1])
        while k2 and k2[-1] == 'FlushBatch':
            k2.pop()
        k2.append('Terminate')
        if len(k2) < len(kinds) and k2.count('Terminate') == 1 and k2.count('FlushAndRestart') == n_iters and \
                (len(k2) < 2 or k2[-2] == 'FlushAndRestart'):
            raise Violation('%s: FlushBatch between the last FlushAndRestart and Terminate '
                            '(flushbatch_before_terminate)' % what, _wit(ex), {'output': [repr(x) for x in out]})
    if not ok:
        raise Violation('%s violates the stream grammar (expected %d iterations): %s' % (what, n_iters, kinds),
                        _wit(ex), {'output': [repr(x) for x in out]})


def split_iterations(els):
    """list of per-iteration element lists (without the FlushAndRestart / Terminate markers)"""
    its, cur = [], []
    for e in els:
        if e.variant == 'FlushAndRestart':
            its.append(cur)
            cur = []
        elif e.variant == 'Terminate':
            break
        else:
            cur.append(e)
    return its


def check_wm_contract(ex, out, what='output'):
    """C06 on one observed sequence: after Watermark(t), within the iteration, no timestamp <= t."""
    last = None
    for i, e in enumerate(out):
        if e.variant == 'FlushAndRestart':
            last = None
            continue
        t = ts_of(e)
        if t is None:
            continue
        if last is not None:
            check(ex, t.v > last.v, '%s: element %d (%s) has timestamp <= an already emitted watermark' %
                  (what, i, e.variant), lambda m: {'output': [repr(x) for x in out]})
        if e.variant == 'Watermark':
            last = t


def _wit(ex):
    from .explore import witness_of
    m = ex.model_for(True)
    return witness_of(ex, m) if m is not None else {}


def cover(ex, name):
    ex.env.setdefault('covers', {})[name] = ex.env.setdefault('covers', {}).get(name, 0) + 1


def bv_max(vals):
    acc = vals[0]
    for v in vals[1:]:
        acc = z3.If(v > acc, v, acc) if (is_sym(v) or is_sym(acc)) else max(v, acc)
    return acc


def bv_min(vals):
    acc = vals[0]
    for v in vals[1:]:
        acc = z3.If(v < acc, v, acc) if (is_sym(v) or is_sym(acc)) else min(v, acc)
    return acc


# ---------------------------------------------------------------------------------------
# native execution hook (replay of counterexamples, differential validation of the executor)
# ---------------------------------------------------------------------------------------

def concrete_int(ex, v):
    """value of an Int under the (pinned) path condition"""
    if v.concrete:
        return v.v
    m = ex.model_for(True)
    if m is None:
        raise Infeasible()
    from .values import norm
    return norm(v.ty, m.eval(v.v, model_completion=True).as_long())


def encode_script(ex, script, keyed):
    """SPEC.md element encoding"""
    out = []
    for e in script:
        tag = SE_VARIANTS[e.variant]
        out.append(tag)
        if e.variant in ('Item', 'Timestamped'):
            pl = e.fields[0]
            if keyed:
                out += [concrete_int(ex, pl.fields[0]), concrete_int(ex, pl.fields[1])]
            else:
                out += [0, concrete_int(ex, pl)]
            if e.variant == 'Timestamped':
                out.append(concrete_int(ex, e.fields[1]))
        elif e.variant == 'Watermark':
            out.append(concrete_int(ex, e.fields[0]))
    return out


def _parse_payload(txt):
    from .models_coll import VecModel
    txt = txt.strip()
    if ':' in txt and not txt.startswith('['):
        k, x = txt.split(':', 1)
        return Agg('tuple', None, [Int('u64', int(k)), _parse_payload(x)])
    if txt.startswith('['):
        inner = txt[1:-1].strip()
        return VecModel([Int('u64', int(t)) for t in inner.split(',')] if inner else [])
    return Int('u64', int(txt))


def parse_token(tok, window_result=False):
    tok = tok.strip()
    if tok == 'B':
        return se('FlushBatch')
    if tok == 'F':
        return se('FlushAndRestart')
    if tok == 'E':
        return se('Terminate')
    if tok.startswith('W('):
        return se('Watermark', Int('i64', int(tok[2:-1])))
    if tok.startswith('I('):
        v = _parse_payload(tok[2:-1])
        return Enum('WindowResult', 'Item', 0, [v]) if window_result else se('Item', v)
    if tok.startswith('T('):
        body, ts = tok[2:-1].rsplit('@', 1)
        v = _parse_payload(body)
        if window_result:
            return Enum('WindowResult', 'Timestamped', 1, [v, Int('i64', int(ts))])
        return se('Timestamped', v, Int('i64', int(ts)))
    raise Unsupported('native token %r' % tok)


def native_run(ex, kind, params, script, keyed=False):
    """Run the real operator on the concretised script. -> raw text (or raises RustPanic)"""
    runner, prof = ex.env['native']
    ex.env['native_used'] = True
    args = [len(params)] + list(params) + encode_script(ex, script, keyed)
    txt = runner(kind, args)[prof]
    ex.env['native_out'] = txt
    if txt == 'PANIC':
        raise RustPanic('the real build panicked on this input')
    if txt.startswith(('BADARGS', 'UNKNOWN', 'NORESULT', 'TIMEOUT')):
        raise Unsupported('native driver: ' + txt)
    return txt


def native_operator(ex, kind, params, script, keyed=False):
    txt = native_run(ex, kind, params, script, keyed)
    toks = txt.split()
    if toks and toks[-1] == 'OVERRUN':
        raise Violation('operator does not terminate on this input (native run overran)')
    out = [parse_token(t) for t in toks]
    ex.env['last_output'] = out
    return out


def native_manager(ex, kind, params, script):
    txt = native_run(ex, kind, params, script)
    calls = txt.split('|')
    res = [(i, [parse_token(t, True) for t in c.split()]) for i, c in enumerate(calls)]
    ex.env['last_output'] = [r for _, rs in res for r in rs + [None]]
    return res
