"""Parser for rustc's `-Zunpretty=mir` text dump (rustc 1.97 nightly).

Only the subset of MIR syntax that appears in the dump of renoir is handled.  Anything the
parser does not understand is kept as an `('unsupported', text)` node; executing such a node
aborts the run as *unsupported* (exit 2) -- it is never silently skipped.
"""
import re
import hashlib

OPEN = {'(': ')', '[': ']', '{': '}', '<': '>'}
CLOSE = {v: k for k, v in OPEN.items()}


def split_top(s, sep=','):
    """Split `s` on `sep` occurring at bracket depth 0 (aware of strings and `->`)."""
    out, depth, cur, i, n = [], 0, [], 0, len(s)
    while i < n:
        c = s[i]
        if c == '"':
            j = i + 1
            while j < n and s[j] != '"':
                if s[j] == '\\':
                    j += 1
                j += 1
            cur.append(s[i:j + 1])
            i = j + 1
            continue
        if c == "'" and i + 2 < n and (s[i + 2] == "'" or (s[i + 1] == '\\' and "'" in s[i + 2:i + 6])):
            # char literal such as '\n' or 'a'
            j = s.index("'", i + 2 if s[i + 1] != '\\' else i + 3)
            cur.append(s[i:j + 1])
            i = j + 1
            continue
        if c == '-' and i + 1 < n and s[i + 1] == '>':
            cur.append('->')
            i += 2
            continue
        if c == '=' and i + 1 < n and s[i + 1] == '>':
            cur.append('=>')
            i += 2
            continue
        if c in OPEN:
            depth += 1
        elif c in CLOSE:
            depth -= 1
        if depth == 0 and s.startswith(sep, i):
            out.append(''.join(cur).strip())
            cur = []
            i += len(sep)
            continue
        cur.append(c)
        i += 1
    last = ''.join(cur).strip()
    if last or out:
        out.append(last)
    return out


def match_close(s, i):
    """s[i] is an opening bracket; return index of its matching closer."""
    depth, n = 0, len(s)
    while i < n:
        c = s[i]
        if c == '"':
            j = i + 1
            while j < n and s[j] != '"':
                if s[j] == '\\':
                    j += 1
                j += 1
            i = j + 1
            continue
        if c == '-' and i + 1 < n and s[i + 1] == '>':
            i += 2
            continue
        if c in OPEN:
            depth += 1
        elif c in CLOSE:
            depth -= 1
            if depth == 0:
                return i
        i += 1
    raise ValueError('unbalanced: ' + s)


def strip_generics(path):
    """`Vec::<T>::push` -> `Vec::push`; `<A<B> as T<C>>::f` -> `<A as T>::f`."""
    out, depth, i, n = [], 0, 0, len(path)
    while i < n:
        c = path[i]
        if c == '-' and path.startswith('->', i):
            if depth == 0:
                out.append('->')
            i += 2
            continue
        if c == '<':
            # keep a leading qualified-path '<' (at depth 0, at start or after space/'(')
            depth += 1
            i += 1
            continue
        if c == '>':
            depth -= 1
            i += 1
            continue
        if depth == 0:
            out.append(c)
        i += 1
    s = ''.join(out)
    s = s.replace('::::', '::')
    while s.endswith('::'):
        s = s[:-2]
    return s


# ---------------------------------------------------------------------------
# places / operands / rvalues
# ---------------------------------------------------------------------------

class P:
    """A place: local index + projection list."""
    __slots__ = ('local', 'proj')

    def __init__(self, local, proj):
        self.local = local
        self.proj = proj

    def __repr__(self):
        return '_%d%s' % (self.local, ''.join(map(str, self.proj)))


_local_re = re.compile(r'_(\d+)')


def parse_place(s):
    s = s.strip()
    proj = []
    local = _parse_place(s, proj)
    return P(local, tuple(proj))


def _parse_place(s, proj):
    s = s.strip()
    # suffix projections: P[...]
    if s.endswith(']'):
        # find matching '['
        depth = 0
        i = len(s) - 1
        while i >= 0:
            if s[i] == ']':
                depth += 1
            elif s[i] == '[':
                depth -= 1
                if depth == 0:
                    break
            i -= 1
        base, idx = s[:i], s[i + 1:-1].strip()
        local = _parse_place(base, proj)
        m = re.fullmatch(r'_(\d+)', idx)
        if m:
            proj.append(('index', int(m.group(1))))
        else:
            m = re.fullmatch(r'(-?\d+) of (\d+)', idx)
            if m:
                a = int(m.group(1))
                proj.append(('constindex', a, int(m.group(2))))
            else:
                m = re.fullmatch(r'(\d+):(-?\d*)', idx) or re.fullmatch(r'(\d+)\.\.(-?\d*)', idx)
                if m:
                    proj.append(('subslice', int(m.group(1)), m.group(2)))
                else:
                    raise ValueError('place index: ' + s)
        return local
    m = _local_re.fullmatch(s)
    if m:
        return int(m.group(1))
    if s.startswith('(') and s.endswith(')') and match_close(s, 0) == len(s) - 1:
        inner = s[1:-1].strip()
        if inner.startswith('*'):
            local = _parse_place(inner[1:], proj)
            proj.append(('deref',))
            return local
        # (P as Variant) | (P.N: TYPE) | (P as TYPE)
        # find top-level " as " or last top-level '.' field
        # try field form: split at first top-level ':' that follows ".N"
        depth = 0
        i = 0
        n = len(inner)
        # locate top-level " as "
        pos_as = -1
        pos_field = -1
        while i < n:
            c = inner[i]
            if c == '-' and inner.startswith('->', i):
                i += 2
                continue
            if c in '([{<':
                depth += 1
            elif c in ')]}>':
                depth -= 1
            elif depth == 0:
                if inner.startswith(' as ', i) and pos_as < 0:
                    pos_as = i
                if c == ':' and not inner.startswith('::', i) and (i == 0 or inner[i - 1] != ':') and pos_field < 0:
                    pos_field = i
            i += 1
        if pos_field >= 0 and (pos_as < 0 or pos_field < pos_as):
            left = inner[:pos_field]
            dot = left.rfind('.')
            base, fld = left[:dot], left[dot + 1:]
            local = _parse_place(base, proj)
            proj.append(('field', int(fld), inner[pos_field + 1:].strip()))
            return local
        if pos_as >= 0:
            base, what = inner[:pos_as], inner[pos_as + 4:].strip()
            local = _parse_place(base, proj)
            proj.append(('downcast', what))
            return local
        return _parse_place(inner, proj)
    raise ValueError('place: ' + s)


def parse_operand(s):
    s = s.strip()
    if s.startswith('copy '):
        return ('copy', parse_place(s[5:]))
    if s.startswith('move '):
        return ('move', parse_place(s[5:]))
    if s.startswith('const '):
        return ('const', s[6:].strip())
    if s.startswith('no_retag '):
        return parse_operand(s[9:])
    if re.match(r'^[A-Za-z_<]', s) and not s.startswith(('&', '(')):
        # a function item used as a value, e.g. `BlockSenders::new` or `<E as From<X>>::from`
        return ('fnitem', s)
    raise ValueError('operand: ' + s)


BINOPS = {'Add', 'Sub', 'Mul', 'Div', 'Rem', 'BitXor', 'BitAnd', 'BitOr', 'Shl', 'Shr', 'Eq', 'Lt', 'Le',
          'Ne', 'Ge', 'Gt', 'Cmp', 'Offset', 'AddWithOverflow', 'SubWithOverflow', 'MulWithOverflow',
          'AddUnchecked', 'SubUnchecked', 'MulUnchecked', 'ShlUnchecked', 'ShrUnchecked'}
UNOPS = {'Not', 'Neg', 'PtrMetadata'}


def parse_rvalue(s):
    s = s.strip()
    if s.endswith(')') and _find_top(s, ' as ') >= 0 and not s.startswith(('&', '(', '[')):
        # a cast: "copy _4 as u64 (IntToInt)" / "f::<T> as fn(T) -> T (PointerCoercion(ReifyFnPointer(Safe), Implicit))"
        k = _find_top(s, ' as ')
        rest = s[k + 4:]
        # cast kind is the last top-level parenthesised group
        j = len(rest) - 1
        depth = 0
        i = j
        while i >= 0:
            if rest[i] == ')':
                depth += 1
            elif rest[i] == '(':
                depth -= 1
                if depth == 0:
                    break
            i -= 1
        kind = rest[i + 1:j]
        if re.match(r'^[A-Z]\w*', kind):
            return ('cast', parse_operand(s[:k]), rest[:i].strip(), kind)
    if s.startswith(('copy ', 'move ', 'const ', 'no_retag ')):
        return ('use', parse_operand(s))
    if s.startswith('&raw const '):
        return ('ref', 'rawconst', parse_place(s[11:]))
    if s.startswith('&raw mut '):
        return ('ref', 'rawmut', parse_place(s[9:]))
    if s.startswith('&mut '):
        return ('ref', 'mut', parse_place(s[5:]))
    if s.startswith('&fake shallow '):
        return ('ref', 'shared', parse_place(s[14:]))
    if s.startswith('&'):
        return ('ref', 'shared', parse_place(s[1:]))
    m = re.match(r'^(\w+)\((.*)\)$', s)
    if m and m.group(1) in BINOPS:
        a, b = split_top(m.group(2))
        return ('binop', m.group(1), parse_operand(a), parse_operand(b))
    if m and m.group(1) in UNOPS:
        return ('unop', m.group(1), parse_operand(m.group(2)))
    if m and m.group(1) == 'discriminant':
        return ('discriminant', parse_place(m.group(2)))
    if m and m.group(1) == 'Len':
        return ('len', parse_place(m.group(2)))
    if m and m.group(1) == 'CopyForDeref':
        return ('use', ('copy', parse_place(m.group(2))))
    if m and m.group(1) in ('SizeOf', 'AlignOf'):
        return ('unsupported', s)
    if s.startswith('(') and match_close(s, 0) == len(s) - 1:
        inner = s[1:-1].strip()
        if inner == '':
            return ('tuple', [])
        parts = split_top(inner)
        if parts and parts[-1] == '':
            parts = parts[:-1]
        return ('tuple', [parse_operand(p) for p in parts])
    if s.startswith('[') and match_close(s, 0) == len(s) - 1:
        inner = s[1:-1].strip()
        semi = split_top(inner, ';')
        if len(semi) == 2:
            return ('repeat', parse_operand(semi[0]), semi[1].strip())
        parts = split_top(inner) if inner else []
        return ('array', [parse_operand(p) for p in parts])
    if s.startswith('{closure@') or s.startswith('{coroutine@') or s.startswith('{async'):
        i = match_close(s, 0)
        name = s[:i + 1]
        rest = s[i + 1:].strip()
        fields = []
        if rest.startswith('{'):
            inner = rest[1:match_close(rest, 0)].strip()
            for p in split_top(inner) if inner else []:
                k, v = p.split(':', 1)
                fields.append((k.strip(), parse_operand(v)))
        return ('closure', name, fields)
    # struct / enum aggregate:  Path { f: op, .. }  |  Path(op, ..)  | Path::Variant { .. }
    if s.endswith('}'):
        # find top-level " {"
        i = _find_top(s, ' {')
        if i >= 0:
            path = s[:i].strip()
            inner = s[i + 2:-1].strip()
            fields = []
            for p in split_top(inner) if inner else []:
                k, v = p.split(':', 1)
                fields.append((k.strip(), parse_operand(v)))
            return ('adt', path, fields, True)
    if s.endswith(')'):
        # tuple-like adt ctor
        j = len(s) - 1
        # find matching '('
        depth = 0
        i = j
        while i >= 0:
            if s[i] == ')':
                depth += 1
            elif s[i] == '(':
                depth -= 1
                if depth == 0:
                    break
            i -= 1
        path = s[:i].strip()
        inner = s[i + 1:-1].strip()
        if path and re.match(r'^[\w<\[(&]', path):
            return ('adt', path, [(str(k), parse_operand(p)) for k, p in
                                  enumerate(split_top(inner) if inner else [])], False)
    if re.match(r'^[\w<:> ,\[\]&\'()+]+$', s):
        # unit struct / unit variant
        return ('adt', s, [], False)
    return ('unsupported', s)


def _top_level_as(s):
    return _find_top(s, ' as ') >= 0


def _find_top(s, needle):
    depth, i, n = 0, 0, len(s)
    while i < n:
        c = s[i]
        if c == '"':
            j = i + 1
            while j < n and s[j] != '"':
                if s[j] == '\\':
                    j += 1
                j += 1
            i = j + 1
            continue
        if c == '-' and s.startswith('->', i):
            i += 2
            continue
        if depth == 0 and s.startswith(needle, i):
            return i
        if c in OPEN:
            depth += 1
        elif c in CLOSE:
            depth -= 1
        i += 1
    return -1


# ---------------------------------------------------------------------------
# functions
# ---------------------------------------------------------------------------

class Block:
    __slots__ = ('stmts', 'term', 'cleanup')

    def __init__(self):
        self.stmts = []
        self.term = None
        self.cleanup = False


class Function:
    def __init__(self, name, header, text, lineno):
        self.name = name          # as printed, e.g. "watermark_frontier::<impl at F:L:C: L:C>::update"
        self.header = header
        self.text = text
        self.lineno = lineno
        self._parsed = False
        self.nargs = 0
        self.arg_types = []
        self.ret_type = None
        self.local_types = {}
        self.blocks = {}
        self.impl_span = None      # (file, line) if in an impl
        self.short = None          # last path segment(s) after the impl / module
        m = re.search(r'<impl at ([^:>]+):(\d+):(\d+): (\d+):(\d+)>::(.*)$', name)
        if m:
            self.impl_span = (m.group(1), int(m.group(2)), int(m.group(3)))
            self.short = m.group(6)
        else:
            self.short = name

    def parse(self):
        if self._parsed:
            return self
        self._parsed = True
        lines = self.text.split('\n')
        h = self.header
        i = h.index('(', len('fn ' + self.name))
        j = match_close(h, i)
        args = split_top(h[i + 1:j])
        self.arg_types = []
        for a in args:
            if not a:
                continue
            k, t = a.split(':', 1)
            self.arg_types.append(t.strip())
            self.local_types[int(k.strip()[1:])] = t.strip()
        self.nargs = len(self.arg_types)
        rest = h[j + 1:].strip()
        if rest.startswith('->'):
            self.ret_type = rest[2:].rstrip('{').strip()
        cur = None
        buf = ''
        for ln in lines[1:]:
            s = ln.strip()
            if cur is None:
                m = re.match(r'^let (mut )?_(\d+): (.*);$', s)
                if m:
                    self.local_types[int(m.group(2))] = m.group(3)
                    continue
                m = re.match(r'^bb(\d+)( \(cleanup\))?: \{$', s)
                if m:
                    cur = Block()
                    cur.cleanup = bool(m.group(2))
                    self.blocks[int(m.group(1))] = cur
                    buf = ''
                continue
            if s == '}':
                cur = None
                continue
            buf = (buf + ' ' + s).strip() if buf else s
            if not buf.endswith(';'):
                continue
            stmt = buf[:-1]
            buf = ''
            if cur.cleanup:
                # cleanup blocks only run while unwinding; we stop at the panic, so keep raw text
                cur.term = ('unsupported', stmt)
                continue
            node = parse_stmt(stmt)
            if node[0] in TERMS:
                cur.term = node
            else:
                cur.stmts.append(node)
        return self


TERMS = {'goto', 'switch', 'return', 'resume', 'unreachable', 'drop', 'call', 'assert', 'terminate'}


def _targets(s):
    """parse `[return: bb1, unwind continue]` / `[success: bb2, unwind: bb3]` / `unwind continue`."""
    s = s.strip()
    d = {}
    if s.startswith('['):
        for part in split_top(s[1:-1]):
            part = part.strip()
            m = re.match(r'^(\w+): bb(\d+)$', part)
            if m:
                d[m.group(1)] = int(m.group(2))
    else:
        m = re.match(r'^bb(\d+)$', s)
        if m:
            d['return'] = int(m.group(1))
    return d


def parse_stmt(s):
    try:
        return _parse_stmt(s)
    except (ValueError, IndexError) as e:
        return ('unsupported', s + '  /* ' + str(e) + ' */')


def _parse_stmt(s):
    s = s.strip()
    if s == 'return':
        return ('return',)
    if s == 'resume':
        return ('resume',)
    if s == 'unreachable':
        return ('unreachable',)
    if s == 'nop':
        return ('nop',)
    if s.startswith('terminate('):
        return ('terminate',)
    if s.startswith('goto -> bb'):
        return ('goto', int(s[10:]))
    if s.startswith(('StorageLive(', 'StorageDead(', 'FakeRead(', 'PlaceMention(', 'AscribeUserType(',
                     'Retag(', 'Coverage', 'ConstEvalCounter', 'BackwardIncompatibleDropHint')):
        return ('nop',)
    if s.startswith('switchInt('):
        j = match_close(s, 9)
        op = parse_operand(s[10:j])
        rest = s[j + 1:].strip()
        assert rest.startswith('->')
        tg = rest[2:].strip()[1:-1]
        cases, otherwise = [], None
        for part in split_top(tg):
            k, v = part.rsplit(':', 1)
            v = int(v.strip()[2:])
            k = k.strip()
            if k == 'otherwise':
                otherwise = v
            else:
                cases.append((int(k), v))
        return ('switch', op, cases, otherwise)
    if s.startswith('drop('):
        j = match_close(s, 4)
        pl = parse_place(s[5:j])
        tg = _targets(s[j + 1:].strip()[2:])
        return ('drop', pl, tg.get('return'))
    if s.startswith('assert('):
        j = match_close(s, 6)
        parts = split_top(s[7:j])
        cond = parts[0].strip()
        neg = False
        if cond.startswith('!'):
            neg = True
            cond = cond[1:]
        tg = _targets(s[j + 1:].strip()[2:])
        return ('assert', parse_operand(cond), neg, parts[1] if len(parts) > 1 else '', tg.get('success'))
    if s.startswith('assume('):
        return ('assume', parse_operand(s[7:-1]))
    m = re.match(r'^discriminant\((.*)\) = (\d+)$', s)
    if m:
        return ('setdiscr', parse_place(m.group(1)), int(m.group(2)))
    if s.startswith('Deinit('):
        return ('nop',)
    # assignment or call
    eq = _find_top(s, ' = ')
    arrow = _find_top(s, ' -> ')
    if arrow >= 0 and (s.endswith(']') or s.endswith('continue') or 'unwind' in s[arrow:] or
                       re.search(r'-> bb\d+$', s)):
        # a call terminator
        dest = None
        body = s[:arrow]
        if eq >= 0 and eq < arrow:
            dest = parse_place(s[:eq])
            body = s[eq + 3:arrow]
        body = body.strip()
        tg = _targets(s[arrow + 4:])
        # callee(args): last top-level '(' group
        j = len(body) - 1
        assert body[j] == ')', body
        depth = 0
        i = j
        while i >= 0:
            if body[i] == ')':
                depth += 1
            elif body[i] == '(':
                depth -= 1
                if depth == 0:
                    break
            i -= 1
        callee = body[:i].strip()
        inner = body[i + 1:j].strip()
        args = [parse_operand(a) for a in split_top(inner)] if inner else []
        if callee.startswith(('move ', 'copy ')):
            callee = ('operand', parse_operand(callee))
        else:
            callee = ('path', callee)
        return ('call', dest, callee, args, tg.get('return'))
    if eq >= 0:
        return ('assign', parse_place(s[:eq]), parse_rvalue(s[eq + 3:]))
    raise ValueError('stmt: ' + s)


class Program:
    """All functions of one MIR dump, indexed for lookup."""

    def __init__(self, text):
        self.functions = []
        self.by_name = {}
        self.by_short = {}
        self.closures = {}       # "{closure@span}" -> Function
        self.simple_consts = {}  # `const NAME: T = const VALUE;`
        self.consts = {}         # constants / statics / promoteds with MIR bodies
        self._index(text)

    def _index(self, text):
        lines = text.split('\n')
        i, n = 0, len(lines)
        while i < n:
            ln = lines[i]
            if (ln.startswith('const ') or ln.startswith('static ')) and ln.rstrip().endswith('= {'):
                j = i
                while j < n and lines[j] != '}':
                    j += 1
                head = ln.split(' ', 1)[1]
                if head.startswith('mut '):
                    head = head[4:]
                # name ends at the ": TYPE = {" separator (first top-level ': ')
                k = _find_top(head, ': ')
                name = head[:k] if k >= 0 else head
                f = Function(name, 'fn ' + name + '() -> ' + head[k + 2:-4].strip() + ' {', '\n'.join(lines[i:j + 1]), i + 1)
                f.is_const = True
                self.consts[name] = f
                i = j + 1
                continue
            if ln.startswith('const ') and ln.rstrip().endswith(';') and ' = const ' in ln:
                head = ln[6:].rstrip()[:-1]
                k = _find_top(head, ': ')
                self.simple_consts[head[:k]] = head.split(' = const ', 1)[1].strip()
                i += 1
                continue
            if ln.startswith('fn '):
                j = i
                header = ln
                # header may span lines? (not observed) -- body ends at the first line == '}'
                while j < n and lines[j] != '}':
                    j += 1
                body = '\n'.join(lines[i:j + 1])
                p = header.index('(', 3) if '<impl at' not in header else None
                name = self._fn_name(header)
                f = Function(name, header, body, i + 1)
                self.functions.append(f)
                self.by_name.setdefault(name, []).append(f)
                self.by_short.setdefault(f.short, []).append(f)
                i = j + 1
                continue
            i += 1
        # closure bodies: first argument type names the closure span
        for f in self.functions:
            if '{closure#' in f.name.rsplit('::', 1)[-1]:
                m = re.search(r'_1: (?:&mut |&)?(\{closure@[^}]*\})', f.header)
                if m:
                    self.closures[m.group(1)] = f

    @staticmethod
    def _fn_name(header):
        # "fn NAME(args) -> ret {" ; NAME may contain "<impl at a:1:2: 3:4>" but no parens
        s = header[3:]
        depth = 0
        for k, c in enumerate(s):
            if c == '<':
                depth += 1
            elif c == '>' and not s.startswith('->', k - 1):
                depth -= 1
            elif c == '(' and depth == 0:
                return s[:k]
        raise ValueError(header)

    def fingerprint(self, fn):
        return hashlib.sha1(fn.text.encode()).hexdigest()[:12]
