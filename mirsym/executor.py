"""Symbolic executor for the MIR of the crate.

Forking is stateless (re-execution with a recorded decision prefix), so no state is ever copied:
`Executor.branch` / `Executor.choose` consult the prefix first and extend the trace afterwards.
Path conditions live in one z3 solver per run.
"""
import os
import re
import sys
import time
import z3

from .parse import Program, P, split_top, match_close, strip_generics, _find_top
from .values import (Int, Agg, Enum, Ref, SliceRef, FnItem, Opaque, UNINIT, INT_BITS, is_signed, norm,
                     is_sym, simp, mk_int, unit, deep_copy, base_name)
from .srcinfo import SrcInfo, type_base

sys.setrecursionlimit(20000)


class Unsupported(Exception):
    """The executor met MIR or an external call it has no semantics for: run is inconclusive."""


class RustPanic(Exception):
    def __init__(self, msg, where=''):
        Exception.__init__(self, msg)
        self.msg = msg
        self.where = where


class Infeasible(Exception):
    """Current path condition became unsatisfiable (an `assume` pruned the path)."""


class BoundExceeded(Exception):
    """A stated exploration bound (steps per path) was hit: inconclusive, never a pass."""


class PyObj:
    """Base class of harness-side objects that take part in trait dispatch (nondeterministic
    upstream operators, uninterpreted user functions, environment stubs)."""
    name = 'PyObj'

    def trait_call(self, ex, trait, method, args):
        raise Unsupported('%s has no %s::%s' % (self.name, trait, method))


class Callee:
    __slots__ = ('raw', 'selfty', 'trait', 'method', 'typath', 'segs', 'selfbase', 'traitbase', 'typebase',
                 'mgenerics', 'tgenerics')

    def __repr__(self):
        return self.raw


_callee_cache = {}


def parse_callee(raw):
    c = _callee_cache.get(raw)
    if c is not None:
        return c
    c = Callee()
    c.raw = raw
    c.selfty = c.trait = c.typath = None
    c.mgenerics = c.tgenerics = None
    path = raw.strip()
    qualified = False
    if path.startswith('<'):
        j0 = match_close(path, 0)
        qualified = _find_top(path[1:j0], ' as ') >= 0 or not path.startswith('<impl ')
    if qualified:
        j = match_close(path, 0)
        inner = path[1:j]
        rest = path[j + 1:]
        k = _find_top(inner, ' as ')
        if k >= 0:
            c.selfty, c.trait = inner[:k].strip(), inner[k + 4:].strip()
        else:
            c.selfty = inner.strip()
        segs = [s for s in split_top(rest, '::') if s]
        c.method = segs[0]
        if len(segs) > 1 and segs[1].startswith('<'):
            c.mgenerics = segs[1]
        c.segs = segs
    else:
        segs = [s for s in split_top(path, '::') if s]
        # trailing generics of the method
        if segs and segs[-1].startswith('<') and not segs[-1].startswith('<impl '):
            c.mgenerics = segs[-1]
            segs = segs[:-1]
        c.method = segs[-1]
        ty = segs[:-1]
        if ty and ty[-1].startswith('<') and not ty[-1].startswith('<impl '):
            c.tgenerics = ty[-1]
            ty = ty[:-1]
        c.segs = ty
        if ty:
            last = ty[-1]
            if last.startswith('<impl '):
                c.selfty = last[6:-1].strip()
                c.typath = c.selfty
            else:
                c.typath = '::'.join(ty)
    c.selfbase = type_base(c.selfty) if c.selfty else None
    c.traitbase = type_base(c.trait) if c.trait else None
    c.typebase = None
    if c.typath:
        if c.selfty and c.typath == c.selfty:
            c.typebase = c.selfbase
        else:
            c.typebase = c.typath.rsplit('::', 1)[-1]
    _callee_cache[raw] = c
    return c


class Frame:
    __slots__ = ('fn', 'locals')

    def __init__(self, fn):
        self.fn = fn
        self.locals = [UNINIT] * (max(fn.local_types) + 1 if fn.local_types else 1)


class World:
    """Everything shared by all paths of one run: program, source facts, impl index, model table."""

    def __init__(self, mir_text, repo_root):
        self.prog = Program(mir_text)
        self.src = SrcInfo(repo_root)
        self.impls = {}          # (traitbase|None, selfbase) -> {method: [Function]}
        self.trait_defaults = {}  # (traitbase, method) -> Function
        self.models = {}
        self.used_functions = {}
        self.used_models = {}
        self._index_impls()
        from . import models
        models.install(self)

    def _index_impls(self):
        for f in self.prog.functions:
            if f.impl_span:
                h = self.src.impl_header(*f.impl_span)
                if h is None:
                    continue
                tb, selfty, sb = h
                f.impl_trait, f.impl_selfty, f.impl_selfbase = tb, selfty, sb
                if '{closure' in f.short or '{constant' in f.short:
                    continue
                self.impls.setdefault((tb, sb), {}).setdefault(f.short, []).append(f)
            else:
                # trait default methods are printed as `module::Trait::method`
                segs = f.name.split('::')
                if len(segs) >= 2 and segs[-2][:1].isupper() and '{' not in f.name:
                    self.trait_defaults[(segs[-2], segs[-1])] = f

    def model(self, key):
        def deco(fn):
            self.models[key] = fn
            return fn
        return deco


class Executor:
    def __init__(self, world, prefix=None, step_limit=200000, solver_timeout_ms=60000):
        self.w = world
        self.prog = world.prog
        self.src = world.src
        self.solver = z3.Solver()
        self.solver.set('timeout', solver_timeout_ms)
        self.prefix = list(prefix or [])
        self.trace = []
        self.steps = 0
        self.step_limit = step_limit
        self.queries = 0
        self.solver_s = 0.0
        self.inputs = []      # (name, z3 const) in creation order
        self.counter = 0
        self.notes = []
        self.env = {}         # harness / environment model state for this path
        self._divcache = {}
        self.max_decisions = 3000
        self.obligations = []
        self._divkeep = []
        self.depth = 0

    # ------------------------------------------------------------------ symbolic inputs
    def fresh_int(self, ty, name=None):
        self.counter += 1
        name = '%s#%d' % (name or ty, self.counter)
        c = z3.BitVec(name, INT_BITS[ty])
        self.inputs.append((name, c, ty))
        pin = self.env.get('pin')
        if pin is not None and name in pin:
            # replay mode: the input stays a symbol (so the decision trace lines up) but is pinned
            self.solver.add(c == z3.BitVecVal(pin[name], INT_BITS[ty]))
        return Int(ty, c)

    def fresh_bool(self, name=None):
        self.counter += 1
        name = '%s#%d' % (name or 'b', self.counter)
        c = z3.Bool(name)
        self.inputs.append((name, c, 'bool'))
        pin = self.env.get('pin')
        if pin is not None and name in pin:
            self.solver.add(c == bool(pin[name]))
        return c

    # ------------------------------------------------------------------ solver
    def _check(self, *extra):
        t = time.time()
        self.queries += 1
        r = self.solver.check(*extra)
        self.solver_s += time.time() - t
        if r == z3.unknown:
            raise BoundExceeded('solver returned unknown: %s' % self.solver.reason_unknown())
        return r == z3.sat

    def assume(self, cond):
        cond = simp(cond)
        if cond is True:
            return
        if cond is False:
            raise Infeasible()
        self.solver.add(cond)
        if len(self.trace) >= len(self.prefix):
            if not self._check():
                raise Infeasible()

    def feasible(self, cond):
        cond = simp(cond)
        if isinstance(cond, bool):
            return cond
        return self._check(cond)

    def model_for(self, cond):
        """Return a z3 model of pc /\\ cond, or None."""
        cond = simp(cond)
        if cond is False:
            return None
        if cond is True:
            return self.solver.model() if self._check() else None
        if self._check(cond):
            return self.solver.model()
        return None

    def valid(self, cond):
        """True iff `cond` holds on every assignment satisfying the path condition."""
        cond = simp(cond)
        if isinstance(cond, bool):
            return cond or not self._check()
        return not self._check(z3.Not(cond))

    # ------------------------------------------------------------------ forking
    def choose(self, n, tag=''):
        """Nondeterministic choice among n alternatives (0..n-1)."""
        if n <= 0:
            raise Infeasible()
        k = len(self.trace)
        if k < len(self.prefix) and self.env.get('native') and \
                (len(self.prefix[k]) != 3 or self.prefix[k][1] != n or self.prefix[k][2] != tag):
            # native replay: the real build replaces the MIR execution, so the decisions the model run took
            # *inside* the operator are not taken again; skip to the next recorded decision of this kind
            j = k
            while j < len(self.prefix) and not (len(self.prefix[j]) == 3 and self.prefix[j][1] == n and self.prefix[j][2] == tag):
                j += 1
            if j == len(self.prefix):
                raise BoundExceeded('native replay: no recorded decision %r left after position %d' % (tag, k))
            self.trace.extend(list(e) for e in self.prefix[k:j])
            k = j
        if k < len(self.prefix):
            ch = self.prefix[k][0]
            if self.prefix[k][1] != n or len(self.prefix[k]) != 3:
                # the re-execution took a different turn than the recorded run: never silently continue
                raise BoundExceeded('non-deterministic replay at decision %d (%s)' % (k, tag))
            self.trace.append([ch, n, tag])
            return ch
        rnd = self.env.get('random')
        ch = rnd.randrange(n) if rnd is not None else 0
        self.trace.append([ch, n, tag])
        return ch

    def branch(self, cond, tag=''):
        """Fork on a (possibly symbolic) boolean; returns the python bool taken on this path."""
        cond = simp(cond)
        if isinstance(cond, bool):
            return cond
        k = len(self.trace)
        if self.env.get('native') and (k >= len(self.prefix) or len(self.prefix[k]) != 4 or self.prefix[k][2] != tag):
            # native replay, decision not aligned with the recorded run (see choose): the inputs are pinned to the
            # witness, so the condition is decided by the path condition itself
            t = self._check(cond)
            f = self._check(z3.Not(cond))
            if not t and not f:
                raise Infeasible()
            val = t
            if t and f:
                self.solver.add(cond)
            return val
        if k < len(self.prefix):
            if len(self.prefix[k]) != 4:
                raise BoundExceeded('non-deterministic replay at decision %d (%s)' % (k, tag))
            ch, n, opts = self.prefix[k][0], self.prefix[k][1], self.prefix[k][3]
            self.trace.append([ch, n, tag, opts])
            val = opts[ch]
            self.solver.add(cond if val else z3.Not(cond))
            return val
        opts = []
        if self._check(cond):
            opts.append(True)
            if self._check(z3.Not(cond)):
                opts.append(False)
        else:
            # the path condition is satisfiable (invariant), so the other side must be feasible
            opts.append(False)
        rnd = self.env.get('random')
        pick = rnd.randrange(len(opts)) if rnd is not None else 0
        self.trace.append([pick, len(opts), tag, opts])
        if len(self.trace) > self.max_decisions:
            raise BoundExceeded('more than %d decisions on one path' % self.max_decisions)
        val = opts[pick]
        if len(opts) > 1:
            self.solver.add(cond if val else z3.Not(cond))
        return val

    def concretize(self, iv, lo=None, hi=None, tag='concretize'):
        """Turn a symbolic Int into a python int by forking over its feasible values in [lo,hi)."""
        if isinstance(iv, Int):
            if iv.concrete:
                return iv.v
            ty, e = iv.ty, iv.v
        else:
            raise Unsupported('concretize of %r' % (iv,))
        k = len(self.trace)
        if k < len(self.prefix):
            ch, n, opts = self.prefix[k][0], self.prefix[k][1], self.prefix[k][3]
            self.trace.append([ch, n, tag, opts])
            self.solver.add(e == z3.BitVecVal(opts[ch], INT_BITS[ty]))
            return opts[ch]
        opts = []
        if lo is not None and hi is not None and hi - lo <= 64:
            for c in range(lo, hi):
                if self._check(e == z3.BitVecVal(c, INT_BITS[ty])):
                    opts.append(c)
            # values outside the range?
            signed = is_signed(ty)
            lt = (e < lo) if signed else z3.ULT(e, lo)
            ge = (e >= hi) if signed else z3.UGE(e, hi)
            if self._check(z3.Or(lt, ge)):
                raise Unsupported('symbolic index may be out of range [%d,%d)' % (lo, hi))
        else:
            # enumerate models (bounded)
            self.solver.push()
            while len(opts) <= 64 and self._check():
                m = self.solver.model()
                c = m.eval(e, model_completion=True).as_long()
                c = norm(ty, c)
                opts.append(c)
                self.solver.add(e != z3.BitVecVal(c, INT_BITS[ty]))
            self.solver.pop()
            if len(opts) > 64:
                raise BoundExceeded('concretize: more than 64 values')
        if not opts:
            raise Infeasible()
        self.trace.append([0, len(opts), tag, opts])
        self.solver.add(e == z3.BitVecVal(opts[0], INT_BITS[ty]))
        return opts[0]

    # ------------------------------------------------------------------ integer ops
    def binop(self, op, a, b):
        if op == 'Offset':
            raise Unsupported('pointer Offset')
        if isinstance(a, Int) and isinstance(b, Int):
            return self._int_binop(op, a, b)
        if _is_boolish(a) and _is_boolish(b):
            return self._bool_binop(op, a, b)
        if isinstance(a, Enum) and isinstance(b, Enum) and not a.fields and not b.fields:
            # fieldless enums compared by discriminant
            if op == 'Eq':
                return a.idx == b.idx
            if op == 'Ne':
                return a.idx != b.idx
        if isinstance(a, Agg) and isinstance(b, Agg) and not a.fields and not b.fields and op in ('Eq', 'Ne'):
            return op == 'Eq'
        raise Unsupported('binop %s on %r, %r' % (op, a, b))

    def _bool_binop(self, op, a, b):
        if isinstance(a, bool) and isinstance(b, bool):
            return {'BitAnd': a and b, 'BitOr': a or b, 'BitXor': a != b, 'Eq': a == b, 'Ne': a != b,
                    'Lt': a < b, 'Le': a <= b, 'Gt': a > b, 'Ge': a >= b}[op]
        za = z3.BoolVal(a) if isinstance(a, bool) else a
        zb = z3.BoolVal(b) if isinstance(b, bool) else b
        if op == 'BitAnd':
            return simp(z3.And(za, zb))
        if op == 'BitOr':
            return simp(z3.Or(za, zb))
        if op in ('BitXor', 'Ne'):
            return simp(z3.Xor(za, zb))
        if op == 'Eq':
            return simp(za == zb)
        if op == 'Lt':
            return simp(z3.And(z3.Not(za), zb))
        if op == 'Le':
            return simp(z3.Or(z3.Not(za), zb))
        if op == 'Gt':
            return simp(z3.And(za, z3.Not(zb)))
        if op == 'Ge':
            return simp(z3.Or(za, z3.Not(zb)))
        raise Unsupported('bool binop ' + op)

    def _int_binop(self, op, a, b):
        ty = a.ty
        bits = INT_BITS[ty]
        signed = is_signed(ty)
        shift = op in ('Shl', 'Shr', 'ShlUnchecked', 'ShrUnchecked')
        if not shift and INT_BITS[b.ty] != bits:
            raise Unsupported('binop width mismatch %s %s %s' % (op, a.ty, b.ty))
        if a.concrete and b.concrete:
            x, y = a.v, b.v
            if op in ('Add', 'AddUnchecked'):
                return Int(ty, x + y)
            if op in ('Sub', 'SubUnchecked'):
                return Int(ty, x - y)
            if op in ('Mul', 'MulUnchecked'):
                return Int(ty, x * y)
            if op in ('AddWithOverflow', 'SubWithOverflow', 'MulWithOverflow'):
                r = x + y if op[0] == 'A' else (x - y if op[0] == 'S' else x * y)
                return Agg('tuple', None, [Int(ty, r), norm(ty, r) != r])
            if op == 'Div':
                if y == 0:
                    raise RustPanic('attempt to divide by zero')
                q = abs(x) // abs(y)
                return Int(ty, q if (x < 0) == (y < 0) else -q)
            if op == 'Rem':
                if y == 0:
                    raise RustPanic('attempt to calculate the remainder with a divisor of zero')
                r = abs(x) % abs(y)
                return Int(ty, r if x >= 0 else -r)
            if op == 'BitAnd':
                return Int(ty, x & y)
            if op == 'BitOr':
                return Int(ty, x | y)
            if op == 'BitXor':
                return Int(ty, x ^ y)
            if op in ('Shl', 'ShlUnchecked'):
                return Int(ty, x << (y % bits))
            if op in ('Shr', 'ShrUnchecked'):
                return Int(ty, x >> (y % bits))
            if op == 'Eq':
                return x == y
            if op == 'Ne':
                return x != y
            if op == 'Lt':
                return x < y
            if op == 'Le':
                return x <= y
            if op == 'Gt':
                return x > y
            if op == 'Ge':
                return x >= y
            if op == 'Cmp':
                return self.mk_ordering(-1 if x < y else (1 if x > y else 0))
            raise Unsupported('int binop ' + op)
        x, y = a.z(), b.z()
        if shift and INT_BITS[b.ty] != bits:
            y = z3.ZeroExt(bits - INT_BITS[b.ty], y) if INT_BITS[b.ty] < bits else z3.Extract(bits - 1, 0, y)
        if op in ('Add', 'AddUnchecked'):
            return mk_int(ty, x + y)
        if op in ('Sub', 'SubUnchecked'):
            return mk_int(ty, x - y)
        if op in ('Mul', 'MulUnchecked'):
            return mk_int(ty, x * y)
        if op == 'AddWithOverflow':
            ok = z3.And(z3.BVAddNoOverflow(x, y, signed), z3.BVAddNoUnderflow(x, y)) if signed else \
                z3.BVAddNoOverflow(x, y, False)
            return Agg('tuple', None, [mk_int(ty, x + y), simp(z3.Not(ok))])
        if op == 'SubWithOverflow':
            ok = z3.And(z3.BVSubNoOverflow(x, y), z3.BVSubNoUnderflow(x, y, True)) if signed else \
                z3.BVSubNoUnderflow(x, y, False)
            return Agg('tuple', None, [mk_int(ty, x - y), simp(z3.Not(ok))])
        if op == 'MulWithOverflow' and not signed and (a.concrete or b.concrete):
            # multiplication by a constant k overflows iff the other factor exceeds MAX / k
            k, o = (a.v, y) if a.concrete else (b.v, x)
            if k == 0:
                return Agg('tuple', None, [Int(ty, 0), False])
            of = z3.UGT(o, z3.BitVecVal(((1 << bits) - 1) // k, bits))
            return Agg('tuple', None, [mk_int(ty, x * y), simp(of)])
        if op == 'MulWithOverflow':
            ok = z3.And(z3.BVMulNoOverflow(x, y, signed), z3.BVMulNoUnderflow(x, y)) if signed else \
                z3.BVMulNoOverflow(x, y, False)
            return Agg('tuple', None, [mk_int(ty, x * y), simp(z3.Not(ok))])
        if op in ('Div', 'Rem') and not signed and b.concrete and b.v > 0 and (b.v & (b.v - 1)) != 0 \
                and bits >= 16 and not self.env.get('no_div_lemma'):
            # unsigned division by a constant that is not a power of two: instead of a divider circuit,
            # fresh q, r constrained by the division lemma  a = q*d + r, r < d, q*d does not overflow
            key = (x.get_id(), b.v)
            qr = self._divcache.get(key)
            if qr is None:
                self.counter += 1
                q = z3.BitVec('divq#%d' % self.counter, bits)
                r = z3.BitVec('divr#%d' % self.counter, bits)
                d = z3.BitVecVal(b.v, bits)
                mx = (1 << bits) - 1
                self.solver.add(z3.ULT(r, d), z3.ULE(q, z3.BitVecVal(mx // b.v, bits)),
                                z3.ULE(r, z3.BitVecVal(mx, bits) - q * d),     # q*d + r does not wrap
                                x == q * d + r)
                qr = (q, r)
                self._divcache[key] = qr
                self._divkeep.append(x)
            return mk_int(ty, qr[0] if op == 'Div' else qr[1])
        if op == 'Div':
            return mk_int(ty, (x / y) if signed else z3.UDiv(x, y))
        if op == 'Rem':
            return mk_int(ty, z3.SRem(x, y) if signed else z3.URem(x, y))
        if op == 'BitAnd':
            return mk_int(ty, x & y)
        if op == 'BitOr':
            return mk_int(ty, x | y)
        if op == 'BitXor':
            return mk_int(ty, x ^ y)
        if op in ('Shl', 'ShlUnchecked'):
            return mk_int(ty, x << y)
        if op in ('Shr', 'ShrUnchecked'):
            return mk_int(ty, (x >> y) if signed else z3.LShR(x, y))
        if op == 'Eq':
            return simp(x == y)
        if op == 'Ne':
            return simp(x != y)
        if op == 'Lt':
            return simp((x < y) if signed else z3.ULT(x, y))
        if op == 'Le':
            return simp((x <= y) if signed else z3.ULE(x, y))
        if op == 'Gt':
            return simp((x > y) if signed else z3.UGT(x, y))
        if op == 'Ge':
            return simp((x >= y) if signed else z3.UGE(x, y))
        if op == 'Cmp':
            lt = (x < y) if signed else z3.ULT(x, y)
            if self.branch(lt, 'cmp<'):
                return self.mk_ordering(-1)
            if self.branch(x == y, 'cmp='):
                return self.mk_ordering(0)
            return self.mk_ordering(1)
        raise Unsupported('int binop ' + op)

    def mk_ordering(self, k):
        return Enum('std::cmp::Ordering', {-1: 'Less', 0: 'Equal', 1: 'Greater'}[k], k, [])

    def unop(self, op, a):
        if op == 'Not':
            if isinstance(a, bool):
                return not a
            if isinstance(a, Int):
                return mk_int(a.ty, ~a.v)
            if is_sym(a):
                return simp(z3.Not(a))
        if op == 'Neg' and isinstance(a, Int):
            return mk_int(a.ty, -a.v)
        raise Unsupported('unop %s on %r' % (op, a))

    def cast(self, v, ty, kind):
        ty = ty.strip()
        if kind in ('IntToInt',):
            if isinstance(v, bool) or (is_sym(v) and z3.is_bool(v)):
                if ty not in INT_BITS:
                    raise Unsupported('cast bool to ' + ty)
                if isinstance(v, bool):
                    return Int(ty, int(v))
                return mk_int(ty, z3.If(v, z3.BitVecVal(1, INT_BITS[ty]), z3.BitVecVal(0, INT_BITS[ty])))
            if isinstance(v, Enum) and not v.fields:
                return Int(ty, v.idx)
            if not isinstance(v, Int) or ty not in INT_BITS:
                raise Unsupported('IntToInt cast of %r to %s' % (v, ty))
            if v.concrete:
                return Int(ty, v.v)
            sb, db = v.bits, INT_BITS[ty]
            e = v.v
            if db < sb:
                e = z3.Extract(db - 1, 0, e)
            elif db > sb:
                e = z3.SignExt(db - sb, e) if is_signed(v.ty) else z3.ZeroExt(db - sb, e)
            return mk_int(ty, e)
        if kind.startswith('PointerCoercion'):
            if 'Unsize' in kind:
                return self._unsize(v)
            return v
        if kind in ('PtrToPtr', 'Transmute', 'FnPtrToPtr', 'Subtype'):
            if kind == 'Transmute' and isinstance(v, Int) and ty in INT_BITS and INT_BITS[ty] == v.bits:
                return mk_int(ty, v.v)
            if isinstance(v, (Ref, SliceRef, FnItem)):
                return v
            if kind == 'Subtype':
                return v         # same run-time representation (lifetime / higher-ranked subtyping only)
            if hasattr(v, 'as_ptr'):
                return v.as_ptr()
            raise Unsupported('cast %s of %r to %s' % (kind, v, ty))
        raise Unsupported('cast kind %s (%r -> %s)' % (kind, v, ty))

    def _unsize(self, v):
        # &[T; N] -> &[T], Box<T> -> Box<dyn Trait>: representation is shared
        if isinstance(v, Ref):
            tgt = v.get()
            if isinstance(tgt, Agg) and tgt.kind == 'array':
                return SliceRef(tgt.fields, 0, len(tgt.fields))
        return v

    # ------------------------------------------------------------------ constants
    def const(self, text, frame=None):
        t = text.strip()
        if t == 'true':
            return True
        if t == 'false':
            return False
        if t == '()':
            return unit()
        m = re.fullmatch(r'(-?\d+)_(\w+)', t)
        if m and m.group(2) in INT_BITS:
            return Int(m.group(2), int(m.group(1)))
        m = re.fullmatch(r'(?:[\w:]*::)?<impl (\w+)>::(MAX|MIN)', t) or re.fullmatch(r'(\w+)::(MAX|MIN)', t)
        if m and m.group(1) in INT_BITS:
            ty = m.group(1)
            bits = INT_BITS[ty]
            if is_signed(ty):
                return Int(ty, (1 << (bits - 1)) - 1 if m.group(2) == 'MAX' else -(1 << (bits - 1)))
            return Int(ty, (1 << bits) - 1 if m.group(2) == 'MAX' else 0)
        if t.startswith('"'):
            return _unescape(t[1:-1])
        if t.startswith("'") and t.endswith("'"):
            s = _unescape(t[1:-1])
            return Int('char', ord(s))
        if t.startswith('ZeroSized: '):
            return self._zst(t[11:].strip())
        m = re.fullmatch(r'(-?[\d.]+(?:[eE][-+]?\d+)?)(f32|f64)', t)
        if m:
            return Opaque('float', float(m.group(1)))
        if t.startswith('b"'):
            return Opaque('bytes', t)
        if re.match(r'^\{alloc\d+', t):
            return Ref([Agg('struct', 'StaticAlloc', [], [])], 0)
        m = re.search(r'::promoted\[(\d+)\]$', t)
        if m and frame is not None:
            f = self.prog.consts.get(frame.fn.name + '::promoted[%s]' % m.group(1))
            if f is not None:
                return self.call_function(f, [])
            return Opaque('const', t)
        # unit enum variant or named constant
        v = self.path_value(t)
        if v is not None:
            return v
        raise Unsupported('const ' + t)

    def _zst(self, ty):
        if ty.startswith('{closure@'):
            return Agg('closure', ty, [], [])
        m = re.match(r'^(?:for<[^>]*> )?(?:unsafe )?(?:extern "[^"]*" )?fn\(.*\{(.*)\}$', ty)
        if m:
            return FnItem(m.group(1))
        return Agg('struct', ty, [], [])

    def path_value(self, path):
        """Value of a path expression used as an operand: unit variant, unit struct, constant."""
        c = parse_callee(path)
        if c.typebase:
            vs = self.src.enum_variants(c.typebase, c.typath)
            if vs is not None:
                for name, idx in vs:
                    if name == c.method:
                        return Enum(strip_generics(c.typath), name, idx, [])
        # named constants of the crate (`const NAME: T = { .. }` appear as MIR bodies)
        if re.fullmatch(r'[A-Z][A-Z0-9_]*', c.method):
            cands = [f for n, f in self.prog.consts.items() if n == path or n.endswith('::' + c.method) or
                     n == c.method]
            if len(cands) == 1:
                return self.call_function(cands[0], [])
            sv = [v for n, v in self.prog.simple_consts.items() if n == path or n.endswith('::' + c.method) or
                  n == c.method or path.endswith('::' + n)]
            if len(set(sv)) == 1:
                return self.const(sv[0])
            return Opaque('const', path)
        if c.method[:1].isupper():
            return Agg('struct', strip_generics(path), [], [])
        return None

    # ------------------------------------------------------------------ places
    def slot(self, frame, place):
        cont, key = frame.locals, place.local
        for pr in place.proj:
            cur = cont[key]
            k = pr[0]
            if k == 'deref':
                if isinstance(cur, Ref):
                    cont, key = cur.cont, cur.key
                elif isinstance(cur, SliceRef):
                    cont, key = [cur], 0
                elif hasattr(cur, 'deref_slot'):
                    cont, key = cur.deref_slot(self)
                else:
                    raise Unsupported('deref of %r in %s' % (cur, frame.fn.name))
            elif k == 'field':
                if isinstance(cur, (Agg, Enum)):
                    cont, key = cur.fields, pr[1]
                    if key >= len(cont) and isinstance(cur, Agg) and cur.kind == 'closure' and not cont and len(pr) > 2:
                        # `const ZeroSized: {closure}`: every capture is a zero-sized value (e.g. a BuildHasherDefault);
                        # materialise it from the type annotation of the projection
                        while len(cont) <= key:
                            cont.append(self._zst(pr[2]) if len(cont) == key else Agg('struct', '?zst', [], []))
                    if key >= len(cont):
                        raise Unsupported('field %d of %r' % (key, cur))
                elif hasattr(cur, 'field_slot'):
                    cont, key = cur.field_slot(self, pr[1], pr[2] if len(pr) > 2 else '')
                else:
                    raise Unsupported('field .%d of %r in %s' % (pr[1], cur, frame.fn.name))
            elif k == 'downcast':
                if isinstance(cur, Enum):
                    if cur.variant != pr[1]:
                        raise Unsupported('downcast %s of %r' % (pr[1], cur))
                elif cur is UNINIT:
                    # writing a variant field by field: materialise
                    raise Unsupported('downcast of uninit')
            elif k == 'index':
                idx = frame.locals[pr[1]]
                items, lo, hi = self._indexable(cur)
                i = self.concretize(idx, 0, hi - lo)
                if not 0 <= i < hi - lo:
                    raise RustPanic('index out of bounds: the len is %d but the index is %d' % (hi - lo, i))
                cont, key = items, lo + i
            elif k == 'constindex':
                items, lo, hi = self._indexable(cur)
                cont, key = items, lo + pr[1]
            else:
                raise Unsupported('projection %r' % (pr,))
        return cont, key

    def _indexable(self, cur):
        if isinstance(cur, Agg) and cur.kind == 'array':
            return cur.fields, 0, len(cur.fields)
        if isinstance(cur, SliceRef):
            return cur.items, cur.lo, cur.hi
        if hasattr(cur, 'items'):
            return cur.items, 0, len(cur.items)
        raise Unsupported('index into %r' % (cur,))

    def read(self, frame, place):
        cont, key = self.slot(frame, place)
        v = cont[key]
        if v is UNINIT:
            raise Unsupported('read of uninitialised %r in %s' % (place, frame.fn.name))
        return v

    def operand(self, frame, op):
        k = op[0]
        if k == 'copy':
            return deep_copy(self.read(frame, op[1]))
        if k == 'move':
            return self.read(frame, op[1])
        if k == 'const':
            return self.const(op[1], frame)
        if k == 'fnitem':
            return FnItem(op[1])
        raise Unsupported('operand %r' % (op,))

    def rvalue(self, frame, rv):
        k = rv[0]
        if k == 'use':
            return self.operand(frame, rv[1])
        if k == 'ref':
            cont, key = self.slot(frame, rv[2])
            v = cont[key]
            if isinstance(v, SliceRef) and rv[2].proj and rv[2].proj[-1][0] == 'deref':
                return v           # reborrow of a slice
            return Ref(cont, key, rv[1] in ('mut', 'rawmut'))
        if k == 'binop':
            return self.binop(rv[1], self.operand(frame, rv[2]), self.operand(frame, rv[3]))
        if k == 'unop':
            if rv[1] == 'PtrMetadata':
                v = self.operand(frame, rv[2])
                if isinstance(v, SliceRef):
                    return Int('usize', len(v))
                raise Unsupported('PtrMetadata of %r' % (v,))
            return self.unop(rv[1], self.operand(frame, rv[2]))
        if k == 'cast':
            return self.cast(self.operand(frame, rv[1]), rv[2], rv[3])
        if k == 'discriminant':
            v = self.read(frame, rv[1])
            if isinstance(v, Enum):
                return Int('isize', v.idx)
            if hasattr(v, 'discriminant'):
                return Int('isize', v.discriminant(self))
            raise Unsupported('discriminant of %r' % (v,))
        if k == 'tuple':
            return Agg('tuple', None, [self.operand(frame, o) for o in rv[1]])
        if k == 'array':
            return Agg('array', None, [self.operand(frame, o) for o in rv[1]])
        if k == 'repeat':
            n = self.const(rv[2]) if not rv[2].isdigit() else Int('usize', int(rv[2]))
            v = self.operand(frame, rv[1])
            return Agg('array', None, [deep_copy(v) for _ in range(n.v)])
        if k == 'closure':
            ops = [o for _, o in rv[2]]
            names = [n for n, _ in rv[2]]
            need = self._closure_upvars(rv[1])
            if need > len(ops) and ops:
                # rustc's pretty printer zips the captured *variable* names with the operands and drops the
                # operands beyond the number of distinct variables (disjoint field captures). The dropped
                # operands are the consecutive temporaries that follow the last printed one.
                last = ops[-1][1]
                if last.proj:
                    raise Unsupported('closure aggregate with truncated operands: ' + rv[1])
                for j in range(need - len(ops)):
                    loc = last.local + 1 + j
                    if frame.locals[loc] is UNINIT:
                        raise Unsupported('cannot recover truncated closure operands of ' + rv[1])
                    ops.append(('move', P(loc, ())))
                    names.append('_upvar%d' % (len(ops) - 1))
            return Agg('closure', rv[1], [self.operand(frame, o) for o in ops], names)
        if k == 'adt':
            return self.mk_adt(rv[1], [(n, self.operand(frame, o)) for n, o in rv[2]], rv[3])
        if k == 'len':
            v = self.read(frame, rv[1])
            items, lo, hi = self._indexable(v)
            return Int('usize', hi - lo)
        raise Unsupported('rvalue %r' % (rv,))

    def _closure_upvars(self, name):
        """number of captured values a closure body accesses (max field index on its env + 1)"""
        c = self.w.__dict__.setdefault('_upvar_cache', {})
        if name not in c:
            fn = self.prog.closures.get(name)
            n = 0
            if fn is not None:
                for m in re.finditer(r'\(\(?\*?_1\)?\.(\d+):', fn.text):
                    n = max(n, int(m.group(1)) + 1)
            c[name] = n
        return c[name]

    def mk_adt(self, path, fields, named):
        c = parse_callee(path)
        if c.typebase and not named or (c.typebase and named):
            vs = self.src.enum_variants(c.typebase, c.typath)
            if vs is not None:
                for name, idx in vs:
                    if name == c.method:
                        return Enum(strip_generics(c.typath), name, idx, [v for _, v in fields])
        name = strip_generics(path)
        b = base_name(name)
        m = self.w.models.get('adt:' + b)
        if m is not None:
            return m(self, name, fields)
        if named:
            return Agg('struct', name, [v for _, v in fields], [n for n, _ in fields])
        return Agg('struct', name, [v for _, v in fields], None)

    # ------------------------------------------------------------------ running MIR
    def call_function(self, fn, args):
        fn.parse()
        self.w.used_functions[fn.name] = fn
        if len(args) != fn.nargs:
            raise Unsupported('arity mismatch calling %s: %d args' % (fn.name, len(args)))
        fr = Frame(fn)
        for i, a in enumerate(args):
            fr.locals[i + 1] = a
        bb = 0
        self.depth += 1
        if self.depth > 400:
            raise BoundExceeded('call depth')
        try:
            while True:
                blk = fn.blocks[bb]
                for st in blk.stmts:
                    self.steps += 1
                    self.stmt(fr, st)
                self.steps += 1
                if self.steps > self.step_limit:
                    raise BoundExceeded('step limit %d' % self.step_limit)
                t = blk.term
                k = t[0]
                if k == 'goto':
                    bb = t[1]
                elif k == 'return':
                    r = fr.locals[0]
                    if r is UNINIT:
                        r = unit()
                    return r
                elif k == 'switch':
                    bb = self.switch(fr, t)
                elif k == 'call':
                    dest, callee, argops, ret = t[1], t[2], t[3], t[4]
                    args2 = [self.operand(fr, a) for a in argops]
                    if callee[0] == 'path':
                        r = self.call_path(callee[1], args2, fr)
                    else:
                        f = self.operand(fr, callee[1])
                        r = self.call_value(f, args2)
                    if ret is None:
                        raise Unsupported('diverging call %r returned' % (callee,))
                    if dest is not None:
                        cont, key = self.slot(fr, dest)
                        cont[key] = r
                    bb = ret
                elif k == 'assert':
                    cond = self.operand(fr, t[1])
                    want = not t[2]
                    if is_sym(cond) and not z3.is_bool(cond):
                        raise Unsupported('assert on non-bool')
                    ok = self.branch(cond if want else self._not(cond), 'assert')
                    if not ok:
                        raise RustPanic(t[3].strip('"'), fn.name)
                    bb = t[4]
                elif k == 'drop':
                    self.drop(fr, t[1])
                    bb = t[2]
                elif k == 'unreachable':
                    raise Unsupported('reached `unreachable` in %s' % fn.name)
                elif k == 'unsupported':
                    raise Unsupported('terminator: %s (in %s)' % (t[1][:200], fn.name))
                else:
                    raise Unsupported('terminator %r' % (t,))
        finally:
            self.depth -= 1

    def _not(self, c):
        if isinstance(c, bool):
            return not c
        return z3.Not(c)

    def switch(self, fr, t):
        v = self.operand(fr, t[1])
        cases, otherwise = t[2], t[3]
        if isinstance(v, bool):
            v = Int('u8', int(v))
        elif is_sym(v) and z3.is_bool(v):
            # cases are 0 / otherwise or 0,1
            val = self.branch(v, 'switch')
            iv = 1 if val else 0
            for c, tgt in cases:
                if c == iv:
                    return tgt
            return otherwise
        if not isinstance(v, Int):
            raise Unsupported('switchInt on %r' % (v,))
        if v.concrete:
            cv = v.v
            for c, tgt in cases:
                if norm(v.ty, c) == cv:
                    return tgt
            if otherwise is None:
                raise Unsupported('switchInt: no target')
            return otherwise
        e = v.v
        bits = v.bits
        for c, tgt in cases:
            if self.branch(e == z3.BitVecVal(c, bits), 'switch'):
                return tgt
        if otherwise is None:
            raise Infeasible()
        return otherwise

    def stmt(self, fr, st):
        k = st[0]
        if k == 'assign':
            rv = st[2]
            pl = st[1]
            if rv[0] == 'adt' and '::' not in rv[1] and not pl.proj:
                # bare variant name (trimmed path): take the enum from the destination's declared type
                ty = fr.fn.local_types.get(pl.local)
                tb = type_base(ty) if ty else None
                vs = self.src.enum_variants(tb, ty) if tb else None
                if vs is not None and any(n == rv[1] for n, _ in vs):
                    idx = dict(vs)[rv[1]]
                    v = Enum(strip_generics(ty), rv[1], idx, [self.operand(fr, o) for _, o in rv[2]])
                    fr.locals[pl.local] = v
                    return
            v = self.rvalue(fr, st[2])
            if not pl.proj:
                fr.locals[pl.local] = v
            else:
                cont, key = self.slot(fr, pl)
                cont[key] = v
        elif k == 'nop':
            pass
        elif k == 'setdiscr':
            raise Unsupported('SetDiscriminant')
        elif k == 'assume':
            v = self.operand(fr, st[1])
            self.assume(v)
        elif k == 'unsupported':
            raise Unsupported('statement: %s (in %s)' % (st[1][:200], fr.fn.name))
        else:
            raise Unsupported('statement %r' % (st,))

    def drop(self, fr, place):
        cont, key = self.slot(fr, place)
        v = cont[key]
        if v is UNINIT:
            return
        self.drop_value(v)

    def drop_value(self, v):
        if isinstance(v, (Agg, Enum)):
            if isinstance(v, Agg) and v.kind == 'struct':
                impl = self.w.impls.get(('Drop', v.base))
                if impl and 'drop' in impl:
                    holder = [v]
                    self.call_function(impl['drop'][0], [Ref(holder, 0)])
            for f in v.fields:
                self.drop_value(f)
        elif hasattr(v, 'drop_model'):
            v.drop_model(self)

    # ------------------------------------------------------------------ calls
    def call_value(self, f, args):
        """Call through a value: fn item / fn pointer / closure / python stub."""
        if isinstance(f, Ref):
            f = f.get()
        if isinstance(f, FnItem):
            if f.py is not None:
                return f.py(self, *args)
            return self.call_path(f.path, args, None)
        if isinstance(f, Agg) and f.kind == 'closure':
            return self.call_closure(f, args)
        if isinstance(f, PyObj):
            return f.trait_call(self, 'Fn', 'call', [f, Agg('tuple', None, list(args))])
        raise Unsupported('call through %r' % (f,))

    def call_closure(self, clo, args, holder=None):
        fn = self.prog.closures.get(clo.name)
        if fn is None:
            raise Unsupported('closure body not found: ' + clo.name)
        fn.parse()
        a0 = fn.arg_types[0]
        if a0.startswith('&'):
            if holder is None:
                holder = Ref([clo], 0)
            first = holder
        else:
            first = clo
        return self.call_function(fn, [first] + list(args))

    def runtime_base(self, v):
        """Base type name of a run-time value (through references)."""
        while isinstance(v, Ref):
            v = v.get()
        if isinstance(v, Int):
            return v.ty
        if isinstance(v, bool) or (is_sym(v) and z3.is_bool(v)):
            return 'bool'
        if isinstance(v, Agg):
            if v.kind == 'tuple':
                return '(tuple)'
            if v.kind == 'array':
                return '[slice]'
            if v.kind == 'closure':
                return '{closure}'
            return v.base
        if isinstance(v, Enum):
            return v.base
        if isinstance(v, SliceRef):
            return '[slice]'
        if isinstance(v, str):
            return 'str'
        if isinstance(v, PyObj):
            return v.name
        if isinstance(v, FnItem):
            return '{fn}'
        if hasattr(v, 'model_name'):
            return v.model_name
        return None

    def find_impl(self, traitbase, selfbase, method, args=None, hint=None):
        d = self.w.impls.get((traitbase, selfbase))
        if not d:
            return None
        fs = d.get(method)
        if not fs:
            return None
        if len(fs) == 1:
            return fs[0]
        # several impls for the same base (macro expansions / specialised generics): filter
        cands = fs
        if args is not None:
            c2 = []
            for f in cands:
                f.parse()
                if f.nargs != len(args):
                    continue
                if all(self._arg_compatible(t, a) for t, a in zip(f.arg_types, args)):
                    c2.append(f)
            cands = c2
        if hint:
            c3 = [f for f in cands if hint_matches(hint, f)]
            if c3:
                cands = c3
        if len(cands) == 1:
            return cands[0]
        if not cands:
            return None
        if hint and '<' in hint:
            # impl blocks that differ in a marker type argument (e.g. `Foo<.., ShipHash>` / `Foo<.., ShipBroadcastRight>`):
            # take the one whose self type shares most generic arguments, textually, with the call's turbofish
            def gargs(t):
                i = t.find('<')
                if i < 0:
                    return []
                j = match_close(t, i)
                return [a.strip() for a in split_top(t[i + 1:j])]
            ha = gargs(hint.replace('::<', '<'))
            scored = []
            for f in cands:
                f.parse()
                fa = gargs(f.arg_types[0]) if f.arg_types else []
                scored.append((sum(1 for a, b in zip(ha, fa) if a == b) if len(ha) == len(fa) else -1, f))
            best = max(sc for sc, _ in scored)
            top = [f for sc, f in scored if sc == best]
            if len(top) == 1 and best > 0:
                return top[0]
        raise Unsupported('ambiguous impl %s for %s::%s (%d candidates)' % (traitbase, selfbase, method, len(cands)))

    def _arg_compatible(self, ty, a):
        """Cheap structural filter between a declared parameter type and a run-time value."""
        ty = ty.strip()
        while ty.startswith('&'):
            ty = ty[1:].strip()
            if ty.startswith('mut '):
                ty = ty[4:].strip()
            if isinstance(a, Ref):
                a = a.get()
        if ty in INT_BITS:
            return isinstance(a, Int) and a.ty == ty
        m = re.match(r'^(?:std::ops::)?Range<(\w+)>$', ty)
        if m and m.group(1) in INT_BITS:
            return isinstance(a, Agg) and a.base == 'Range' and isinstance(a.fields[0], Int) and \
                a.fields[0].ty == m.group(1)
        rb = self.runtime_base(a)
        tb = type_base(ty)
        if rb and tb and tb[:1].isupper() and len(tb) > 2 and rb[:1].isupper():
            # both nominal: must agree unless ty is a generic parameter (unknown here): accept
            known = (None, tb) in self.w.impls or tb in self.src.structs or tb in self.src.enums
            if known and rb != tb:
                return False
        return True

    def call_path(self, raw, args, frame):
        c = parse_callee(raw)
        w = self.w
        if c.trait is not None:
            tb, sb, m = c.traitbase, c.selfbase, c.method
            # harness-side object as receiver
            recv = args[0] if args else None
            r0 = recv
            while isinstance(r0, Ref):
                r0 = r0.get()
            if isinstance(r0, PyObj):
                return r0.trait_call(self, tb, m, args)
            f = self.find_impl(tb, sb, m, args, c.selfty)
            if f is not None:
                return self.call_function(f, args)
            mod = w.models.get('<%s as %s>::%s' % (sb, tb, m))
            if mod is not None:
                w.used_models[mod.__name__] = 1
                return mod(self, c, args)
            # run-time dispatch on the receiver
            rb = self.runtime_base(recv) if recv is not None else None
            if rb is not None and rb != sb:
                if tb in ('Fn', 'FnMut', 'FnOnce'):
                    return self.call_fn_trait(c, args)
                f = self.find_impl(tb, rb, m, args)
                if f is not None:
                    return self.call_function(f, args)
                mod = w.models.get('<%s as %s>::%s' % (rb, tb, m))
                if mod is not None:
                    w.used_models[mod.__name__] = 1
                    return mod(self, c, args)
            if tb in ('Fn', 'FnMut', 'FnOnce'):
                return self.call_fn_trait(c, args)
            mod = w.models.get('<_ as %s>::%s' % (tb, m))
            if mod is not None:
                w.used_models[mod.__name__] = 1
                return mod(self, c, args)
            d = w.trait_defaults.get((tb, m))
            if d is not None:
                return self.call_function(d, args)
            raise Unsupported('no semantics for call %s (receiver %s)' % (raw, rb))
        # inherent method / free function
        ov = self.env.get('fn_overrides')
        if ov:
            k = ('%s::%s' % (c.typebase, c.method)) if c.typebase else c.method
            if k in ov:
                # harness-declared stub of a crate function (part of the claim: listed in the evidence)
                w.used_models['stub:' + k] = 1
                return ov[k](self, c, args)
        if c.typebase:
            r0 = args[0] if args else None
            while isinstance(r0, Ref):
                r0 = r0.get()
            if isinstance(r0, PyObj) and (r0.name == c.typebase or getattr(r0, 'any_type', False)):
                res = r0.trait_call(self, c.typebase, c.method, args)
                if res is not NotImplemented:
                    return res
            f = self.find_impl(None, c.typebase, c.method, args, c.typath + (c.tgenerics or ''))
            if f is not None:
                return self.call_function(f, args)
            # trait method called with type-qualified syntax, e.g. `Coord::clone`
            mod = w.models.get('%s::%s' % (c.typebase, c.method))
            if mod is not None:
                w.used_models[mod.__name__] = 1
                return mod(self, c, args)
            # enum variant / tuple struct constructor used as a function
            vs = self.src.enum_variants(c.typebase, c.typath)
            if vs is not None and any(n == c.method for n, _ in vs):
                return self.mk_adt(raw, [(str(i), a) for i, a in enumerate(args)], False)
            d = w.trait_defaults.get((c.typebase, c.method))
            if d is not None:
                return self.call_function(d, args)
        else:
            fs = self.prog.by_short.get(c.method) or []
            fs = [f for f in fs if not f.impl_span]
            if len(fs) == 1:
                return self.call_function(fs[0], args)
        # free functions by (module-trimmed) name
        key = '::'.join(s for s in (c.segs[-1:] if c.segs else []) + [c.method])
        for k2 in (key, c.method):
            mod = w.models.get(k2)
            if mod is not None:
                w.used_models[mod.__name__] = 1
                return mod(self, c, args)
        cands = [f for f in self.prog.functions if not f.impl_span and
                 (f.name == strip_generics(raw) or f.name.endswith('::' + strip_generics(raw)) or
                  strip_generics(raw).endswith('::' + f.name))]
        if len(cands) == 1:
            return self.call_function(cands[0], args)
        if c.typebase and c.method[:1].isupper() and not self.src.enum_variants(c.typebase, c.typath):
            # tuple struct constructor as function
            pass
        raise Unsupported('no semantics for call %s' % raw)

    def call_fn_trait(self, c, args):
        """<F as Fn*>::call*(f, (args,))"""
        f = args[0]
        tup = args[1]
        holder = None
        if isinstance(f, Ref):
            holder = f
            f = f.get()
            # &&F
            while isinstance(f, Ref):
                holder = f
                f = f.get()
        if not isinstance(tup, Agg) or tup.kind != 'tuple':
            raise Unsupported('Fn call with non-tuple args')
        if isinstance(f, Agg) and f.kind == 'closure':
            return self.call_closure(f, tup.fields, holder)
        if isinstance(f, FnItem):
            if f.py is not None:
                return f.py(self, *tup.fields)
            return self.call_path(f.path, tup.fields, None)
        if isinstance(f, PyObj):
            return f.trait_call(self, c.traitbase, c.method, args)
        raise Unsupported('Fn call on %r' % (f,))


def hint_matches(hint, f):
    """Does the declared self type / module path `hint` plausibly denote the impl of `f`?"""
    h = strip_generics(hint)
    segs = [s for s in h.split('::') if s and not s[:1].isupper() and s not in ('crate', 'std', 'core')]
    if not f.impl_span:
        return True
    parts = f.impl_span[0].replace('.rs', '').split('/')
    return all(s in parts for s in segs)


def _is_boolish(v):
    return isinstance(v, bool) or (is_sym(v) and z3.is_bool(v))


def _unescape(s):
    try:
        return bytes(s, 'utf-8').decode('unicode_escape')
    except Exception:
        return s
