"""External solver portfolio for the final (hard) property queries.

The in-process z3 runs in incremental mode, which is slow on wide bit-vector arithmetic.  A query
that it cannot decide quickly is written out as SMT-LIB2 and given to several solver
configurations in parallel; the first definite answer wins.  Any `(error` line makes that
configuration's answer unusable."""
import os
import re
import subprocess
import tempfile
import time

CONFIGS = [
    ('z3', ['z3-new', '-smt2']),
    ('cvc5-bitblast', ['cvc5', '--lang', 'smt2', '--produce-models']),
    ('cvc5-int', ['cvc5', '--lang', 'smt2', '--produce-models', '--solve-bv-as-int=sum']),
]


def solve(smt_body, timeout, want_model_for=(), crosscheck=False):
    """-> (status, solver name, model dict name->int | None, seconds). status in sat/unsat/unknown."""
    text = '(set-logic ALL)\n(set-option :produce-models true)\n' + smt_body + '\n(check-sat)\n'
    if want_model_for:
        text += '(get-value (%s))\n' % ' '.join('|%s|' % n for n in want_model_for)
    fd, path = tempfile.mkstemp(suffix='.smt2', prefix='verif-q-')
    os.write(fd, text.encode())
    os.close(fd)
    procs = []
    t0 = time.time()
    try:
        for name, cmd in CONFIGS:
            try:
                p = subprocess.Popen(cmd + [path], stdout=subprocess.PIPE, stderr=subprocess.STDOUT, text=True)
                procs.append((name, p))
            except OSError:
                pass
        answer = ('unknown', None, None)
        verdicts = []
        live = list(procs)
        while live and time.time() - t0 < timeout:
            for name, p in list(live):
                if p.poll() is not None:
                    live.remove((name, p))
                    out = p.stdout.read()
                    first = out.strip().split('\n', 1)[0].strip()
                    # an error *before* the verdict (parse error, unsupported logic) voids this answer;
                    # the `(error` that get-value prints after `unsat` is expected
                    if first in ('sat', 'unsat'):
                        model = None
                        if first == 'sat':
                            model = _parse_values(out)
                        if crosscheck:
                            verdicts.append((first, name, model))
                            if len(verdicts) >= 2 or not live:
                                kinds = set(v[0] for v in verdicts)
                                answer = ('disagree', '+'.join(v[1] for v in verdicts), None) if len(kinds) > 1 else \
                                    (verdicts[0][0], '+'.join(v[1] for v in verdicts), verdicts[0][2])
                                live = []
                                break
                            continue
                        answer = (first, name, model)
                        live = []
                        break
            else:
                time.sleep(0.02)
                continue
            break
        if crosscheck and answer[0] == 'unknown' and verdicts:
            answer = (verdicts[0][0], verdicts[0][1] + ' (single)', verdicts[0][2])
        return answer + (time.time() - t0,)
    finally:
        for name, p in procs:
            if p.poll() is None:
                p.kill()
            try:
                p.stdout.close()
            except Exception:
                pass
            p.wait()
        os.unlink(path)


def _parse_values(out):
    m = {}
    for name, val in re.findall(r'\(\s*\|?([^\s|()]+)\|?\s+(#x[0-9a-fA-F]+|#b[01]+|true|false)\s*\)', out):
        if val.startswith('#x'):
            m[name] = int(val[2:], 16)
        elif val.startswith('#b'):
            m[name] = int(val[2:], 2)
        else:
            m[name] = (val == 'true')
    return m
