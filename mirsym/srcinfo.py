"""Facts read from the crate's *source text* that the MIR dump refers to only by name:
enum variant order (for discriminants), struct field order, impl headers at a span."""
import os
import re
from .parse import split_top, match_close, strip_generics

STD_ENUMS = {
    'Option': ['None', 'Some'],
    'Result': ['Ok', 'Err'],
    'Ordering': [('Less', -1), ('Equal', 0), ('Greater', 1)],
    'ControlFlow': ['Continue', 'Break'],
    'Poll': ['Ready', 'Pending'],
    'Cow': ['Borrowed', 'Owned'],
    'Bound': ['Included', 'Excluded', 'Unbounded'],
    'Entry': ['Occupied', 'Vacant'],
    'TryRecvError': ['Empty', 'Disconnected'],
    'RecvTimeoutError': ['Timeout', 'Disconnected'],
    'Infallible': [],
    'SeekFrom': ['Start', 'End', 'Current'],
}


def _strip_comments(text):
    out = []
    i, n = 0, len(text)
    while i < n:
        if text.startswith('//', i):
            j = text.find('\n', i)
            i = n if j < 0 else j
            continue
        if text.startswith('/*', i):
            j = text.find('*/', i)
            i = n if j < 0 else j + 2
            continue
        if text[i] == '"':
            j = i + 1
            while j < n and text[j] != '"':
                if text[j] == '\\':
                    j += 1
                j += 1
            out.append(text[i:j + 1])
            i = j + 1
            continue
        out.append(text[i])
        i += 1
    return ''.join(out)


class SrcInfo:
    def __init__(self, root):
        self.root = root
        self.files = {}
        self.enums = {}      # base name -> list of (file, [(variant, discr)])
        self.structs = {}    # base name -> list of (file, [field names] or int (tuple arity))
        for dp, dn, fn in os.walk(os.path.join(root, 'src')):
            for f in fn:
                if f.endswith('.rs'):
                    p = os.path.join(dp, f)
                    rel = os.path.relpath(p, root)
                    txt = open(p, encoding='utf-8', errors='replace').read()
                    self.files[rel] = txt
                    self._scan(rel, _strip_comments(txt))

    def _scan(self, rel, txt):
        for m in re.finditer(r'\benum\s+(\w+)\s*(<[^{]*)?(?:where[^{]*)?\{', txt):
            name = m.group(1)
            i = m.end() - 1
            try:
                j = match_close(txt, i)
            except ValueError:
                continue
            body = txt[i + 1:j]
            variants = []
            nxt = 0
            for part in split_top(body):
                part = re.sub(r'#\s*\[[^\]]*\]', '', part).strip()
                if not part:
                    continue
                vm = re.match(r'^(\w+)', part)
                if not vm:
                    continue
                dm = re.search(r'=\s*(-?\d+)\s*$', part)
                if dm and '(' not in part and '{' not in part:
                    nxt = int(dm.group(1))
                variants.append((vm.group(1), nxt))
                nxt += 1
            self.enums.setdefault(name, []).append((rel, variants))
        for m in re.finditer(r'\bstruct\s+(\w+)\s*(<[^{;(]*>)?\s*(?:where[^{;]*)?([{(;])', txt):
            name = m.group(1)
            if m.group(3) == ';':
                self.structs.setdefault(name, []).append((rel, []))
                continue
            i = m.end() - 1
            try:
                j = match_close(txt, i)
            except ValueError:
                continue
            body = txt[i + 1:j]
            if m.group(3) == '(':
                self.structs.setdefault(name, []).append((rel, len([p for p in split_top(body) if p.strip()])))
            else:
                names = []
                for part in split_top(body):
                    part = re.sub(r'//[^\n]*', '', part)        # doc comments the comment stripper left behind
                    part = re.sub(r'#\s*\[[^\]]*\]', '', part).strip()
                    fm = re.match(r'^(?:pub(?:\([^)]*\))?\s+)?(\w+)\s*:', part)
                    if fm:
                        names.append(fm.group(1))
                self.structs.setdefault(name, []).append((rel, names))

    # -- enums ---------------------------------------------------------------------------
    def enum_variants(self, base, hint=None):
        """-> list of (variant, discr) or None."""
        if base in self.enums:
            cands = self.enums[base]
            if len(cands) > 1 and hint:
                hs = [h for h in strip_generics(hint).split('::') if h]
                best = [c for c in cands if all(h in c[0].replace('.rs', '').split('/') or h == base for h in hs)]
                if len(best) == 1:
                    return best[0][1]
            if len(cands) == 1:
                return cands[0][1]
            # same name in several modules: only usable if identical
            if all(c[1] == cands[0][1] for c in cands):
                return cands[0][1]
            return None
        if base in STD_ENUMS:
            out = []
            for k, v in enumerate(STD_ENUMS[base]):
                out.append(v if isinstance(v, tuple) else (v, k))
            return out
        return None

    def struct_fields(self, base, hint=None):
        cands = self.structs.get(base)
        if not cands:
            return None
        if len(cands) > 1 and hint:
            hs = [h for h in strip_generics(hint).split('::') if h]
            best = [c for c in cands if all(h in c[0].replace('.rs', '').split('/') or h == base for h in hs)]
            if len(best) == 1:
                return best[0][1]
        if len(cands) == 1 or all(c[1] == cands[0][1] for c in cands):
            return cands[0][1]
        return None

    # -- impl headers --------------------------------------------------------------------
    def impl_header(self, file, line, col):
        """Return (trait_base or None, self_type_text, self_base) for the impl starting at file:line:col."""
        txt = self.files.get(file)
        if txt is None:
            return None
        lines = txt.split('\n')
        ln = lines[line - 1]
        rest = ln[col - 1:]
        if not rest.startswith('impl') and not rest.startswith('unsafe impl'):
            # derive: span is the trait name inside #[derive(..)]
            m = re.match(r'^(\w+)', rest)
            trait = m.group(1) if m else None
            for k in range(line - 1, min(line + 40, len(lines))):
                m2 = re.search(r'\b(?:struct|enum)\s+(\w+)', lines[k])
                if m2 and not lines[k].strip().startswith('//'):
                    return (trait, m2.group(1), m2.group(1))
            return None
        text = rest
        k = line
        while '{' not in text and k < len(lines):
            text += ' ' + lines[k]
            k += 1
        text = _strip_comments(text)
        text = text.split('{')[0]
        text = re.sub(r'^unsafe\s+', '', text.strip())
        text = text[4:].strip()
        if text.startswith('<'):
            text = text[match_close(text, 0) + 1:].strip()
        # drop where clause
        w = _find_word(text, 'where')
        if w >= 0:
            text = text[:w].strip()
        f = _find_word(text, 'for')
        trait = None
        if f >= 0:
            trait = text[:f].strip()
            text = text[f + 3:].strip()
        selfty = text
        tb = None
        if trait:
            tb = strip_generics(trait).rsplit('::', 1)[-1].strip().lstrip('!')
        sb = type_base(selfty)
        return (tb, selfty, sb)


def _find_word(text, word):
    depth = 0
    i, n = 0, len(text)
    while i < n:
        c = text[i]
        if c == '-' and text.startswith('->', i):
            i += 2
            continue
        if c in '<([{':
            depth += 1
        elif c in '>)]}':
            depth -= 1
        elif depth == 0 and text.startswith(word, i) and (i == 0 or not (text[i - 1].isalnum() or text[i - 1] == '_')) \
                and (i + len(word) == n or not (text[i + len(word)].isalnum() or text[i + len(word)] == '_')):
            return i
        i += 1
    return -1


def type_base(t):
    """Base name used for dispatch: `Foo<A>` -> Foo, `&mut Foo` -> Foo, `(A, B)` -> (tuple), `[T]` -> [slice]."""
    t = t.strip()
    while t.startswith('&'):
        t = t[1:].strip()
        if t.startswith("'"):
            t = t.split(' ', 1)[1].strip() if ' ' in t else t
        if t.startswith('mut '):
            t = t[4:].strip()
    if t.startswith('dyn '):
        t = t[4:].strip()
    if t.startswith('('):
        return '(tuple)'
    if t.startswith('['):
        return '[slice]'
    t = strip_generics(t)
    return t.rsplit('::', 1)[-1].strip()
