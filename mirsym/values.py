"""Run-time values of the MIR symbolic executor."""
import z3

INT_BITS = {'i8': 8, 'u8': 8, 'i16': 16, 'u16': 16, 'i32': 32, 'u32': 32, 'i64': 64, 'u64': 64,
            'i128': 128, 'u128': 128, 'isize': 64, 'usize': 64, 'char': 32}


def is_signed(ty):
    return ty[0] == 'i'


def norm(ty, v):
    """normalise a python int into the range of `ty` (wrapping)."""
    bits = INT_BITS[ty]
    v &= (1 << bits) - 1
    if is_signed(ty) and v >> (bits - 1):
        v -= 1 << bits
    return v


class Int:
    """An integer of Rust type `ty`; `v` is a python int or a z3 bit-vector of that width."""
    __slots__ = ('ty', 'v')

    def __init__(self, ty, v):
        self.ty = ty
        if isinstance(v, int):
            v = norm(ty, v)
        self.v = v

    @property
    def bits(self):
        return INT_BITS[self.ty]

    @property
    def concrete(self):
        return isinstance(self.v, int)

    def z(self):
        if isinstance(self.v, int):
            return z3.BitVecVal(self.v, INT_BITS[self.ty])
        return self.v

    def __repr__(self):
        return '%s:%s' % (self.v, self.ty)


def is_sym(v):
    return isinstance(v, z3.ExprRef)


def simp(e):
    """Fold a z3 term to a python constant when it simplifies to one."""
    if isinstance(e, (bool, int)):
        return e
    e = z3.simplify(e)
    if z3.is_true(e):
        return True
    if z3.is_false(e):
        return False
    return e


def mk_int(ty, e):
    if isinstance(e, int):
        return Int(ty, e)
    e = z3.simplify(e)
    if z3.is_bv_value(e):
        return Int(ty, e.as_long())
    return Int(ty, e)


class Agg:
    """tuple / struct / array / closure value. `fields` is a mutable list of slots."""
    __slots__ = ('kind', 'name', 'fields', 'fnames')

    def __init__(self, kind, name, fields, fnames=None):
        self.kind = kind
        self.name = name
        self.fields = fields
        self.fnames = fnames

    @property
    def base(self):
        return base_name(self.name) if self.name else self.kind

    def get(self, fname):
        return self.fields[self.fnames.index(fname)]

    def set(self, fname, v):
        self.fields[self.fnames.index(fname)] = v

    def __repr__(self):
        if self.kind == 'tuple':
            return '(' + ', '.join(map(repr, self.fields)) + ')'
        if self.kind == 'array':
            return '[' + ', '.join(map(repr, self.fields)) + ']'
        if self.fnames:
            return '%s{%s}' % (self.base, ', '.join('%s: %r' % kv for kv in zip(self.fnames, self.fields)))
        return '%s(%s)' % (self.base, ', '.join(map(repr, self.fields)))


class Enum:
    __slots__ = ('name', 'variant', 'idx', 'fields')

    def __init__(self, name, variant, idx, fields):
        self.name = name
        self.variant = variant
        self.idx = idx
        self.fields = fields

    @property
    def base(self):
        return base_name(self.name)

    def __repr__(self):
        if self.fields:
            return '%s(%s)' % (self.variant, ', '.join(map(repr, self.fields)))
        return self.variant


class Ref:
    """A reference / raw pointer to slot `key` of python list (or dict) `cont`."""
    __slots__ = ('cont', 'key', 'mut')

    def __init__(self, cont, key, mut=True):
        self.cont = cont
        self.key = key
        self.mut = mut

    def get(self):
        return self.cont[self.key]

    def set(self, v):
        self.cont[self.key] = v

    def __repr__(self):
        try:
            return '&%r' % (self.get(),)
        except Exception:
            return '&<dangling>'


class SliceRef:
    """`&[T]` / `&mut [T]` view of items[lo:hi] of a python list."""
    __slots__ = ('items', 'lo', 'hi')

    def __init__(self, items, lo, hi):
        self.items = items
        self.lo = lo
        self.hi = hi

    def __len__(self):
        return self.hi - self.lo

    def __repr__(self):
        return '&%r' % (self.items[self.lo:self.hi],)


class FnItem:
    """A function item / function pointer value (a path into the crate, std or a python callable)."""
    __slots__ = ('path', 'py')

    def __init__(self, path, py=None):
        self.path = path
        self.py = py

    def __repr__(self):
        return 'fn{%s}' % (self.path,)


class Opaque:
    """A value the executor carries around without looking inside (ZSTs, PhantomData, handles)."""
    __slots__ = ('what', 'data')

    def __init__(self, what, data=None):
        self.what = what
        self.data = data

    def __repr__(self):
        return '<%s>' % (self.what,)


class Uninit:
    def __repr__(self):
        return '<uninit>'


UNINIT = Uninit()


def base_name(path):
    """last path segment of a (generic-stripped) type path."""
    if path is None:
        return None
    from .parse import strip_generics
    p = strip_generics(path) if '<' in path else path
    return p.rsplit('::', 1)[-1].strip()


def unit():
    return Agg('tuple', None, [])


def deep_copy(v):
    """Value copy (Rust `Copy`/bitwise or derived `Clone` semantics). References are shared."""
    if isinstance(v, Agg):
        return Agg(v.kind, v.name, [deep_copy(x) for x in v.fields], v.fnames)
    if isinstance(v, Enum):
        return Enum(v.name, v.variant, v.idx, [deep_copy(x) for x in v.fields])
    if getattr(v, 'model_name', None) == 'IterModel':
        # iterator adapters are never Copy: a MIR `copy` of one is a move the optimiser relaxed
        return v
    if hasattr(v, 'clone_model'):
        return v.clone_model()
    return v
