"""Core std models: integers, Option/Result, cmp, mem, Clone, conversions."""
import re
import z3

from .values import (Int, Agg, Enum, Ref, SliceRef, FnItem, Opaque, UNINIT, INT_BITS, is_signed, norm,
                     is_sym, simp, mk_int, unit, deep_copy, base_name)
from .models import (deref, some, none, ok, err, int_min, int_max, values_eq, values_cmp, ite_int, _panic,
                     generic_arg, zbool)


def install(w):
    from .executor import Unsupported, RustPanic
    M = w.models

    # ------------------------------------------------------------------ integers
    def sat_add(ex, c, a):
        x, y = a
        ty = x.ty
        if x.concrete and y.concrete:
            return Int(ty, max(int_min(ty), min(int_max(ty), x.v + y.v)))
        r = ex.binop('AddWithOverflow', x, y)
        s, of = r.fields
        if is_signed(ty):
            neg = ex.binop('Lt', y, Int(ty, 0))
            lim = ite_int(neg, Int(ty, int_min(ty)), Int(ty, int_max(ty)))
        else:
            lim = Int(ty, int_max(ty))
        return ite_int(of, lim, s)

    def sat_sub(ex, c, a):
        x, y = a
        ty = x.ty
        if x.concrete and y.concrete:
            return Int(ty, max(int_min(ty), min(int_max(ty), x.v - y.v)))
        r = ex.binop('SubWithOverflow', x, y)
        s, of = r.fields
        if is_signed(ty):
            neg = ex.binop('Lt', y, Int(ty, 0))
            lim = ite_int(neg, Int(ty, int_max(ty)), Int(ty, int_min(ty)))
        else:
            lim = Int(ty, 0)
        return ite_int(of, lim, s)

    def sat_mul(ex, c, a):
        x, y = a
        ty = x.ty
        if x.concrete and y.concrete:
            return Int(ty, max(int_min(ty), min(int_max(ty), x.v * y.v)))
        r = ex.binop('MulWithOverflow', x, y)
        p, of = r.fields
        if is_signed(ty):
            neg = ex._bool_binop('BitXor', ex.binop('Lt', x, Int(ty, 0)), ex.binop('Lt', y, Int(ty, 0)))
            lim = ite_int(neg, Int(ty, int_min(ty)), Int(ty, int_max(ty)))
        else:
            lim = Int(ty, int_max(ty))
        return ite_int(of, lim, p)

    def checked(opname):
        def f(ex, c, a):
            r = ex.binop(opname, a[0], a[1])
            s, of = r.fields
            if ex.branch(of, 'checked'):
                return none()
            return some(s)
        return f

    def wrapping(opname):
        def f(ex, c, a):
            return ex.binop(opname, a[0], a[1])
        return f

    def int_min_f(ex, c, a):
        x, y = deref(a[0]), deref(a[1])
        if isinstance(a[0], Ref) and isinstance(x, Int):
            # Ord::min on references returns one of the references
            return a[0] if ex.branch(ex.binop('Le', x, y), 'min by ref') else a[1]
        if isinstance(x, Int) and isinstance(y, Int):
            return ite_int(ex.binop('Le', x, y), x, y)
        # general Ord::min: fork
        return a[0] if values_cmp(ex, x, y) <= 0 else a[1]

    def int_max_f(ex, c, a):
        x, y = deref(a[0]), deref(a[1])
        if isinstance(a[0], Ref) and isinstance(x, Int):
            return a[0] if ex.branch(ex.binop('Gt', x, y), 'max by ref') else a[1]
        if isinstance(x, Int) and isinstance(y, Int):
            # Ord::max returns the second argument when equal
            return ite_int(ex.binop('Gt', x, y), x, y)
        return a[0] if values_cmp(ex, x, y) > 0 else a[1]

    for ty in INT_BITS:
        M['%s::saturating_add' % ty] = sat_add
        M['%s::saturating_sub' % ty] = sat_sub
        M['%s::saturating_mul' % ty] = sat_mul
        M['%s::checked_add' % ty] = checked('AddWithOverflow')
        M['%s::checked_sub' % ty] = checked('SubWithOverflow')
        M['%s::checked_mul' % ty] = checked('MulWithOverflow')
        M['%s::wrapping_add' % ty] = wrapping('Add')
        M['%s::wrapping_sub' % ty] = wrapping('Sub')
        M['%s::wrapping_mul' % ty] = wrapping('Mul')
        M['<%s as Ord>::min' % ty] = int_min_f
        M['<%s as Ord>::max' % ty] = int_max_f
        M['%s::min' % ty] = int_min_f
        M['%s::max' % ty] = int_max_f
    M['<_ as Ord>::min'] = int_min_f
    M['<_ as Ord>::max'] = int_max_f
    M['cmp::min'] = int_min_f
    M['cmp::max'] = int_max_f

    def add_assign(ex, c, a):
        r = a[0]
        r.set(ex.binop('Add', r.get(), deref(a[1])))
        return unit()
    M['<_ as AddAssign>::add_assign'] = add_assign

    def abs_diff(ex, c, a):
        x, y = a
        uty = 'u' + x.ty[1:] if is_signed(x.ty) else x.ty
        big = ex.binop('Gt', x, y)
        d1 = ex.binop('Sub', x, y)
        d2 = ex.binop('Sub', y, x)
        r = ite_int(big, d1, d2)
        return mk_int(uty, r.v)
    for ty in INT_BITS:
        M['%s::abs_diff' % ty] = abs_diff

    def int_conv(ex, src, dst_ty):
        """checked conversion: Ok(dst) if representable else Err"""
        v = src
        if v.concrete:
            if int_min(dst_ty) <= v.v <= int_max(dst_ty):
                return ok(Int(dst_ty, v.v))
            return err(Agg('struct', 'TryFromIntError', [], []))
        sb, db = v.bits, INT_BITS[dst_ty]
        ssig, dsig = is_signed(v.ty), is_signed(dst_ty)
        e = v.v
        # representable iff round trip through the wider of both (as signed math) is identity
        W = max(sb, db) + 1
        wide = z3.SignExt(W - sb, e) if ssig else z3.ZeroExt(W - sb, e)
        fits = z3.And(wide >= z3.BitVecVal(int_min(dst_ty), W), wide <= z3.BitVecVal(int_max(dst_ty), W))
        if ex.branch(fits, 'try_into'):
            return ok(ex.cast(v, dst_ty, 'IntToInt'))
        return err(Agg('struct', 'TryFromIntError', [], []))

    def try_into(ex, c, a):
        dst = generic_arg(c.trait)
        if dst not in INT_BITS or not isinstance(a[0], Int):
            raise Unsupported('try_into %s' % c.raw)
        return int_conv(ex, a[0], dst)

    def try_from(ex, c, a):
        dst = c.selfty
        if dst not in INT_BITS or not isinstance(a[0], Int):
            raise Unsupported('try_from %s' % c.raw)
        return int_conv(ex, a[0], dst)
    M['<_ as TryInto>::try_into'] = try_into
    M['<_ as TryFrom>::try_from'] = try_from

    def into(ex, c, a):
        dst = generic_arg(c.trait)
        v = a[0]
        if isinstance(v, Int) and dst in INT_BITS:
            return ex.cast(v, dst, 'IntToInt')
        if dst and strip_base(dst) == strip_base(c.selfty or ''):
            return v
        if dst:
            f = ex.find_impl('From', strip_base(dst), 'from', [v])
            if f is not None:
                return ex.call_function(f, [v])
        raise Unsupported('into %s' % c.raw)

    def strip_base(t):
        from .srcinfo import type_base
        return type_base(t) if t else None
    M['<_ as Into>::into'] = into

    def from_(ex, c, a):
        dst = c.selfty
        v = a[0]
        if dst in INT_BITS and (isinstance(v, bool) or (is_sym(v) and z3.is_bool(v))):
            return ex.cast(v, dst, 'IntToInt')
        if isinstance(v, Int) and dst in INT_BITS:
            return ex.cast(v, dst, 'IntToInt')
        src = generic_arg(c.trait)
        if src and dst and strip_base(src) == strip_base(dst):
            return v
        raise Unsupported('from %s' % c.raw)
    M['<_ as From>::from'] = from_

    # ------------------------------------------------------------------ Option
    def is_variant(name):
        def f(ex, c, a):
            return deref(a[0]).variant == name
        return f
    M['Option::is_some'] = is_variant('Some')
    M['Option::is_none'] = is_variant('None')
    M['Result::is_ok'] = is_variant('Ok')
    M['Result::is_err'] = is_variant('Err')

    def opt_unwrap(ex, c, a):
        o = a[0]
        if o.variant == 'Some':
            return o.fields[0]
        _panic('called `Option::unwrap()` on a `None` value')
    M['Option::unwrap'] = opt_unwrap
    M['Option::unwrap_unchecked'] = opt_unwrap

    def opt_expect(ex, c, a):
        o = a[0]
        if o.variant == 'Some':
            return o.fields[0]
        _panic('expect failed: %s' % (a[1],))
    M['Option::expect'] = opt_expect

    def res_unwrap(ex, c, a):
        r = a[0]
        if r.variant == 'Ok':
            return r.fields[0]
        _panic('called `Result::unwrap()` on an `Err` value: %r' % (r.fields[0],))
    M['Result::unwrap'] = res_unwrap

    def res_expect(ex, c, a):
        r = a[0]
        if r.variant == 'Ok':
            return r.fields[0]
        _panic('%s: %r' % (a[1], r.fields[0]))
    M['Result::expect'] = res_expect

    def res_unwrap_err(ex, c, a):
        r = a[0]
        if r.variant == 'Err':
            return r.fields[0]
        _panic('called `Result::unwrap_err()` on an `Ok` value')
    M['Result::unwrap_err'] = res_unwrap_err

    def res_ok(ex, c, a):
        r = a[0]
        return some(r.fields[0]) if r.variant == 'Ok' else none()
    M['Result::ok'] = res_ok

    def res_err(ex, c, a):
        r = a[0]
        return some(r.fields[0]) if r.variant == 'Err' else none()
    M['Result::err'] = res_err

    def res_map(ex, c, a):
        r = a[0]
        if r.variant == 'Ok':
            return ok(ex.call_value(a[1], [r.fields[0]]))
        return r
    M['Result::map'] = res_map

    def res_map_err(ex, c, a):
        r = a[0]
        if r.variant == 'Err':
            return err(ex.call_value(a[1], [r.fields[0]]))
        return r
    M['Result::map_err'] = res_map_err

    def res_and_then(ex, c, a):
        r = a[0]
        if r.variant == 'Ok':
            return ex.call_value(a[1], [r.fields[0]])
        return r
    M['Result::and_then'] = res_and_then

    def res_unwrap_or(ex, c, a):
        r = a[0]
        return r.fields[0] if r.variant == 'Ok' else a[1]
    M['Result::unwrap_or'] = res_unwrap_or

    def res_unwrap_or_else(ex, c, a):
        r = a[0]
        return r.fields[0] if r.variant == 'Ok' else ex.call_value(a[1], [r.fields[0]])
    M['Result::unwrap_or_else'] = res_unwrap_or_else

    def opt_unwrap_or(ex, c, a):
        o = a[0]
        return o.fields[0] if o.variant == 'Some' else a[1]
    M['Option::unwrap_or'] = opt_unwrap_or

    def opt_unwrap_or_else(ex, c, a):
        o = a[0]
        return o.fields[0] if o.variant == 'Some' else ex.call_value(a[1], [])
    M['Option::unwrap_or_else'] = opt_unwrap_or_else

    def opt_unwrap_or_default(ex, c, a):
        o = a[0]
        if o.variant == 'Some':
            return o.fields[0]
        return default_of(ex, generic_arg(c.tgenerics))
    M['Option::unwrap_or_default'] = opt_unwrap_or_default

    def opt_map(ex, c, a):
        o = a[0]
        if o.variant == 'Some':
            return some(ex.call_value(a[1], [o.fields[0]]))
        return none()
    M['Option::map'] = opt_map

    def opt_map_or(ex, c, a):
        o = a[0]
        if o.variant == 'Some':
            return ex.call_value(a[2], [o.fields[0]])
        return a[1]
    M['Option::map_or'] = opt_map_or

    def opt_and_then(ex, c, a):
        o = a[0]
        if o.variant == 'Some':
            return ex.call_value(a[1], [o.fields[0]])
        return none()
    M['Option::and_then'] = opt_and_then

    def opt_filter(ex, c, a):
        o = a[0]
        if o.variant == 'Some':
            keep = ex.call_value(a[1], [Ref(o.fields, 0)])
            if ex.branch(keep, 'Option::filter'):
                return o
        return none()
    M['Option::filter'] = opt_filter

    def opt_or(ex, c, a):
        return a[0] if a[0].variant == 'Some' else a[1]
    M['Option::or'] = opt_or

    def opt_or_else(ex, c, a):
        return a[0] if a[0].variant == 'Some' else ex.call_value(a[1], [])
    M['Option::or_else'] = opt_or_else

    def opt_ok_or(ex, c, a):
        return ok(a[0].fields[0]) if a[0].variant == 'Some' else err(a[1])
    M['Option::ok_or'] = opt_ok_or

    def opt_as_ref(ex, c, a):
        o = deref(a[0])
        if o.variant == 'Some':
            return some(Ref(o.fields, 0, False))
        return none()
    M['Option::as_ref'] = opt_as_ref
    M['Option::as_mut'] = opt_as_ref
    M['Option::as_deref'] = opt_as_ref
    M['Option::as_deref_mut'] = opt_as_ref

    def opt_cloned(ex, c, a):
        o = a[0]
        if o.variant == 'Some':
            return some(clone_value(ex, o.fields[0]))
        return none()
    M['Option::cloned'] = opt_cloned
    M['Option::copied'] = opt_cloned

    def opt_take(ex, c, a):
        r = a[0]
        old = r.get()
        r.set(none())
        return old
    M['Option::take'] = opt_take

    def opt_replace(ex, c, a):
        r = a[0]
        old = r.get()
        r.set(some(a[1]))
        return old
    M['Option::replace'] = opt_replace

    def opt_insert(ex, c, a):
        r = a[0]
        new = some(a[1])
        r.set(new)
        return Ref(new.fields, 0)
    M['Option::insert'] = opt_insert

    def opt_get_or_insert_with(ex, c, a):
        r = a[0]
        o = r.get()
        if o.variant == 'None':
            o = some(ex.call_value(a[1], []))
            r.set(o)
        return Ref(o.fields, 0)
    M['Option::get_or_insert_with'] = opt_get_or_insert_with

    def opt_zip(ex, c, a):
        if a[0].variant == 'Some' and a[1].variant == 'Some':
            return some(Agg('tuple', None, [a[0].fields[0], a[1].fields[0]]))
        return none()
    M['Option::zip'] = opt_zip

    def opt_is_some_and(ex, c, a):
        o = a[0]
        if o.variant == 'Some':
            return ex.call_value(a[1], [o.fields[0]])
        return False
    M['Option::is_some_and'] = opt_is_some_and

    def opt_into_iter(ex, c, a):
        from .models_iter import ListIter
        o = a[0]
        return ListIter([o.fields[0]] if o.variant == 'Some' else [])
    M['<Option as IntoIterator>::into_iter'] = opt_into_iter

    # `?` operator plumbing
    def try_branch(ex, c, a):
        v = a[0]
        if v.variant in ('Ok', 'Some'):
            return Enum('ControlFlow', 'Continue', 0, [v.fields[0]])
        if v.base == 'Option':
            return Enum('ControlFlow', 'Break', 1, [none()])
        return Enum('ControlFlow', 'Break', 1, [err(v.fields[0])])
    M['<Result as Try>::branch'] = try_branch
    M['<Option as Try>::branch'] = try_branch

    def from_residual(ex, c, a):
        return a[0]
    M['<Result as FromResidual>::from_residual'] = from_residual
    M['<Option as FromResidual>::from_residual'] = from_residual

    # ------------------------------------------------------------------ Clone / Default / mem
    def clone_value(ex, v):
        v = deref(v)
        if isinstance(v, (Agg, Enum)) and not (isinstance(v, Agg) and v.kind in ('tuple', 'array', 'closure')):
            f = ex.find_impl('Clone', v.base, 'clone')
            if f is not None:
                return ex.call_function(f, [Ref([v], 0, False)])
        if isinstance(v, Agg) and v.kind in ('tuple', 'array', 'closure', 'struct'):
            return Agg(v.kind, v.name, [clone_value(ex, x) for x in v.fields], v.fnames)
        if isinstance(v, Enum):
            return Enum(v.name, v.variant, v.idx, [clone_value(ex, x) for x in v.fields])
        if hasattr(v, 'clone_model'):
            return v.clone_model(ex)
        from .executor import PyObj
        if isinstance(v, PyObj):
            return v.trait_call(ex, 'Clone', 'clone', [v])
        return v
    w.clone_value = clone_value

    def clone(ex, c, a):
        return clone_value(ex, a[0])
    M['<_ as Clone>::clone'] = clone
    M['<_ as ToOwned>::to_owned'] = clone

    def default_of(ex, ty):
        if ty is None:
            raise Unsupported('Default of unknown type')
        ty = ty.strip()
        if ty in INT_BITS:
            return Int(ty, 0)
        if ty == 'bool':
            return False
        if ty == '()':
            return unit()
        from .srcinfo import type_base
        b = type_base(ty)
        if b == 'Option':
            return none()
        if b == 'PhantomData':
            return Agg('struct', 'PhantomData', [], [])
        m = M.get('default:' + b)
        if m is not None:
            return m(ex, ty)
        f = ex.find_impl('Default', b, 'default')
        if f is not None:
            return ex.call_function(f, [])
        if b == '(tuple)':
            inner = ty[1:-1]
            return Agg('tuple', None, [default_of(ex, t) for t in split_top_(inner) if t])
        raise Unsupported('Default for ' + ty)
    w.default_of = default_of

    def split_top_(s):
        from .parse import split_top
        return split_top(s)

    def default(ex, c, a):
        return default_of(ex, ex.env.get('generics', {}).get(c.selfty, c.selfty))
    M['<_ as Default>::default'] = default

    def mem_replace(ex, c, a):
        r = a[0]
        old = r.get()
        r.set(a[1])
        return old
    M['mem::replace'] = mem_replace

    def mem_take(ex, c, a):
        r = a[0]
        old = r.get()
        r.set(default_of_value(ex, old, generic_arg(c.mgenerics)))
        return old
    M['mem::take'] = mem_take

    def default_of_value(ex, old, ty):
        if hasattr(old, 'empty_like'):
            return old.empty_like()
        if isinstance(old, Enum) and old.base == 'Option':
            return none()
        if isinstance(old, Int):
            return Int(old.ty, 0)
        if isinstance(old, bool):
            return False
        return default_of(ex, ty)

    def mem_swap(ex, c, a):
        x, y = a[0].get(), a[1].get()
        a[0].set(y)
        a[1].set(x)
        return unit()
    M['mem::swap'] = mem_swap

    def mem_drop(ex, c, a):
        ex.drop_value(a[0])
        return unit()
    M['mem::drop'] = mem_drop
    M['mem::forget'] = lambda ex, c, a: unit()

    # ------------------------------------------------------------------ comparisons
    def partial_eq(ex, c, a):
        return values_eq(ex, a[0], a[1])
    M['<_ as PartialEq>::eq'] = partial_eq

    def partial_ne(ex, c, a):
        e = values_eq(ex, a[0], a[1])
        return (not e) if isinstance(e, bool) else simp(z3.Not(e))
    M['<_ as PartialEq>::ne'] = partial_ne

    def ord_cmp(ex, c, a):
        return ex.mk_ordering(values_cmp(ex, a[0], a[1]))
    M['<_ as Ord>::cmp'] = ord_cmp

    def partial_cmp(ex, c, a):
        return some(ex.mk_ordering(values_cmp(ex, a[0], a[1])))
    M['<_ as PartialOrd>::partial_cmp'] = partial_cmp

    def mk_rel(op):
        def f(ex, c, a):
            x, y = deref(a[0]), deref(a[1])
            if isinstance(x, Int) and isinstance(y, Int):
                return ex.binop(op, x, y)
            k = values_cmp(ex, x, y)
            return {'Lt': k < 0, 'Le': k <= 0, 'Gt': k > 0, 'Ge': k >= 0}[op]
        return f
    M['<_ as PartialOrd>::lt'] = mk_rel('Lt')
    M['<_ as PartialOrd>::le'] = mk_rel('Le')
    M['<_ as PartialOrd>::gt'] = mk_rel('Gt')
    M['<_ as PartialOrd>::ge'] = mk_rel('Ge')

    def ordering_is(vals):
        def f(ex, c, a):
            return deref(a[0]).idx in vals
        return f
    M['Ordering::is_lt'] = ordering_is((-1,))
    M['Ordering::is_le'] = ordering_is((-1, 0))
    M['Ordering::is_gt'] = ordering_is((1,))
    M['Ordering::is_ge'] = ordering_is((0, 1))
    M['Ordering::is_eq'] = ordering_is((0,))
    M['Ordering::is_ne'] = ordering_is((-1, 1))

    def ordering_then(ex, c, a):
        return a[0] if a[0].idx != 0 else a[1]
    M['Ordering::then'] = ordering_then

    def ordering_reverse(ex, c, a):
        return ex.mk_ordering(-a[0].idx)
    M['Ordering::reverse'] = ordering_reverse

    # ------------------------------------------------------------------ references / smart pointers
    def ident(ex, c, a):
        return a[0]
    M['<_ as Deref>::deref'] = lambda ex, c, a: model_deref(ex, a[0])
    M['<_ as DerefMut>::deref_mut'] = lambda ex, c, a: model_deref(ex, a[0])
    M['<_ as AsRef>::as_ref'] = lambda ex, c, a: model_deref(ex, a[0])
    M['<_ as AsMut>::as_mut'] = lambda ex, c, a: model_deref(ex, a[0])
    M['<_ as Borrow>::borrow'] = ident
    M['<_ as BorrowMut>::borrow_mut'] = ident

    def model_deref(ex, r):
        tgt = r.get() if isinstance(r, Ref) else r
        if hasattr(tgt, 'deref_model'):
            return tgt.deref_model(ex, r)
        if isinstance(tgt, Ref):
            return tgt
        if isinstance(tgt, str):
            return r
        raise Unsupported('Deref of %r' % (tgt,))

    # ------------------------------------------------------------------ panics / misc
    def begin_panic(ex, c, a):
        _panic('explicit panic: %r' % (a[0] if a else '',))
    M['panicking::panic'] = begin_panic
    M['panicking::panic_fmt'] = begin_panic
    M['panicking::panic_explicit'] = begin_panic
    M['panicking::unreachable_display'] = begin_panic
    M['panicking::panic_display'] = begin_panic
    M['rt::begin_panic'] = begin_panic
    for _n in ('panic', 'panic_fmt', 'panic_explicit', 'unreachable_display', 'panic_display', 'begin_panic',
               'panic_nounwind', 'panic_str', 'expect_failed', 'unwrap_failed'):
        M[_n] = begin_panic
        M['panicking::' + _n] = begin_panic
        M['option::' + _n] = begin_panic
        M['result::' + _n] = begin_panic
    M['assert_failed'] = M['panicking::assert_failed'] if 'panicking::assert_failed' in M else begin_panic
    M['panicking::begin_panic'] = begin_panic
    M['panicking::assert_failed'] = lambda ex, c, a: _panic('assertion `left == right` failed: %r vs %r' % (deref(a[1]), deref(a[2])))
    M['rt::panic_fmt'] = begin_panic
    # re-raising a caught panic payload / panicking with a payload: unwinds like any other panic
    for _n in ('resume_unwind', 'panic::resume_unwind', 'panic_any', 'panic::panic_any'):
        M[_n] = lambda ex, c, a: _panic('panic with payload: %r' % (a[0] if a else '',))

    # logging front end: the static max level is Off in every build we model
    M['max_level'] = lambda ex, c, a: Enum('LevelFilter', 'Off', 0, [])
    M['log::max_level'] = M['max_level']

    def level_le(ex, c, a):
        return False
    M['<Level as PartialOrd>::le'] = level_le

    # fmt: formatting is never the subject; produce an opaque string
    M['Arguments::new_const'] = lambda ex, c, a: Opaque('fmt::Arguments')
    M['Arguments::new_v1'] = lambda ex, c, a: Opaque('fmt::Arguments')
    M['Arguments::from_str'] = lambda ex, c, a: Opaque('fmt::Arguments')
    M['Arguments::new'] = lambda ex, c, a: Opaque('fmt::Arguments')
    M['Argument::new_display'] = lambda ex, c, a: Opaque('fmt::Argument')
    M['Argument::new_debug'] = lambda ex, c, a: Opaque('fmt::Argument')
    M['fmt::format'] = lambda ex, c, a: '<formatted>'
    M['format'] = lambda ex, c, a: '<formatted>'
    M['must_use'] = ident
    M['hint::must_use'] = ident
    M['hint::black_box'] = ident
    M['any::type_name'] = lambda ex, c, a: '<type_name>'
    M['<str as ToString>::to_string'] = lambda ex, c, a: deref(a[0])
    M['<_ as ToString>::to_string'] = lambda ex, c, a: '<to_string>'
    M['<String as Deref>::deref'] = ident

    M['NonZero::get'] = lambda ex, c, a: deref(a[0])

    def nonzero_new(ex, c, a):
        z = ex.binop('Eq', a[0], Int(a[0].ty, 0))
        if ex.branch(z, 'NonZero::new'):
            return none()
        return some(a[0])
    M['NonZero::new'] = nonzero_new

    # all TypeIds are modelled as equal: harnesses only connect endpoints of the matching type
    M['TypeId::of'] = lambda ex, c, a: Opaque('TypeId')

    def size_of(ex, c, a):
        ty = generic_arg(c.mgenerics)
        if ty in INT_BITS:
            return Int('usize', INT_BITS[ty] // 8)
        raise Unsupported('size_of ' + str(ty))
    M['mem::size_of'] = size_of
