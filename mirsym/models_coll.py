"""Container models: Vec, VecDeque, slices, HashMap/IndexMap/sets, Box/Arc/Rc, Mutex, String."""
import z3

from .values import (Int, Agg, Enum, Ref, SliceRef, FnItem, Opaque, UNINIT, INT_BITS, is_signed, norm,
                     is_sym, simp, mk_int, unit, deep_copy)
from .models import deref, some, none, ok, err, values_eq, values_cmp, generic_arg, _panic
from .models_iter import ListIter, into_iter, drain_all, it_next, END


class SeqModel:
    """Common part of Vec / VecDeque: `items` is the python list of element slots."""
    model_name = 'Vec'

    def __init__(self, items=None):
        self.items = list(items or [])

    def __repr__(self):
        return '%s%r' % (self.model_name, self.items)

    def clone_model(self, ex=None):
        if ex is not None:
            return type(self)([ex.w.clone_value(ex, x) for x in self.items])
        return type(self)([deep_copy(x) for x in self.items])

    def empty_like(self):
        return type(self)([])

    def iter_refs(self, mut=True):
        return [Ref(self.items, i, mut) for i in range(len(self.items))]

    def into_iter_values(self, ex):
        xs = self.items
        self.items = []
        return xs

    def extend_model(self, ex, xs):
        self.items.extend(deref_if_copy(xs))

    def deref_model(self, ex, r):
        return SliceRef(self.items, 0, len(self.items))

    def drop_model(self, ex):
        for x in self.items:
            ex.drop_value(x)


def deref_if_copy(xs):
    # `extend(&[T])` for Copy items yields references: store the values
    return [x.get() if isinstance(x, Ref) and not isinstance(x.get(), (Ref,)) and _is_scalar(x.get()) else x
            for x in xs]


def _is_scalar(v):
    return isinstance(v, (Int, bool)) or is_sym(v)


class VecModel(SeqModel):
    model_name = 'Vec'


class DequeModel(SeqModel):
    model_name = 'VecDeque'


class MapModel:
    """HashMap / IndexMap / BTreeMap / sets: insertion-ordered list of [key, value] entries with
    pairwise distinct keys (distinctness is established by forking on symbolic key equality)."""

    def __init__(self, kind='HashMap', entries=None):
        self.kind = kind
        self.model_name = kind
        self.entries = entries or []

    def __repr__(self):
        return '%s{%s}' % (self.kind, ', '.join('%r: %r' % (k, v) for k, v in self.entries))

    def clone_model(self, ex=None):
        cv = (lambda x: ex.w.clone_value(ex, x)) if ex is not None else deep_copy
        return MapModel(self.kind, [[cv(k), cv(v)] for k, v in self.entries])

    def empty_like(self):
        return MapModel(self.kind)

    def find(self, ex, key):
        key = deref(key)
        for i, (k, v) in enumerate(self.entries):
            if ex.branch(values_eq(ex, k, key), 'map key eq'):
                return i
        return None

    def insert(self, ex, key, val):
        i = self.find(ex, key)
        if i is None:
            self.entries.append([key, val])
            return None
        old = self.entries[i][1]
        self.entries[i][1] = val
        return old

    def order(self, ex):
        """Iteration order.  IndexMap: insertion order.  HashMap/HashSet: arbitrary -- every
        permutation is explored when the harness asks for it (env['hash_order'] == 'any')."""
        n = len(self.entries)
        idx = list(range(n))
        if self.kind in ('HashMap', 'HashSet') and ex.env.get('hash_order') == 'any' and n > 1:
            out = []
            while idx:
                j = ex.choose(len(idx), 'hash iteration order')
                out.append(idx.pop(j))
            return out
        if self.kind in ('BTreeMap', 'BTreeSet'):
            import functools
            return sorted(idx, key=functools.cmp_to_key(
                lambda i, j: values_cmp(ex, self.entries[i][0], self.entries[j][0])))
        return idx

    def extend_model(self, ex, xs):
        for kv in xs:
            if self.kind.endswith('Set'):
                self.insert(ex, kv, unit())
            else:
                self.insert(ex, kv.fields[0], kv.fields[1])

    def into_iter_values(self, ex):
        es = [self.entries[i] for i in self.order(ex)]
        self.entries = []
        if self.kind.endswith('Set'):
            return [k for k, v in es]
        return [Agg('tuple', None, [k, v]) for k, v in es]

    def iter_refs(self, mut=True):
        raise NotImplementedError

    def drop_model(self, ex):
        for k, v in self.entries:
            ex.drop_value(v)


class BoxModel:
    model_name = 'Box'

    def __init__(self, v):
        self.slot = [v]

    def deref_slot(self, ex):
        return self.slot, 0

    def field_slot(self, ex, idx, ty=''):
        # (box.0: Unique<T>).0: NonNull<T> ... the pointer inside the box: stay on the box
        return [self], 0

    def as_ptr(self):
        return Ref(self.slot, 0)

    def deref_model(self, ex, r):
        return Ref(self.slot, 0)

    def clone_model(self, ex=None):
        return BoxModel(ex.w.clone_value(ex, self.slot[0]) if ex else deep_copy(self.slot[0]))

    def __repr__(self):
        return 'Box(%r)' % (self.slot[0],)

    def drop_model(self, ex):
        ex.drop_value(self.slot[0])


WRAPPERS = ('ManuallyDrop', 'MaybeDangling', 'MaybeUninit', 'UnsafeCell', 'Cell')


class Transparent:
    """MaybeUninit / ManuallyDrop / MaybeDangling ...: single-field wrappers seen when std macros
    (vec![..]) are lowered; the payload lives in `inner[0]`."""
    model_name = 'Transparent'

    def __init__(self, v=UNINIT):
        self.inner = [v]

    def field_slot(self, ex, idx, ty=''):
        from .srcinfo import type_base
        if type_base(ty) in WRAPPERS and not isinstance(self.inner[0], Transparent):
            self.inner[0] = Transparent(self.inner[0])
        return self.inner, 0

    def payload(self):
        v = self.inner[0]
        while isinstance(v, Transparent):
            v = v.inner[0]
        return v

    def __repr__(self):
        return 'Wrap(%r)' % (self.inner[0],)


class ArcModel:
    """Arc / Rc: clones share the slot."""
    model_name = 'Arc'

    def __init__(self, v=None, slot=None):
        self.slot = slot if slot is not None else [v]

    def deref_slot(self, ex):
        return self.slot, 0

    def deref_model(self, ex, r):
        return Ref(self.slot, 0)

    def clone_model(self, ex=None):
        return ArcModel(slot=self.slot)

    def __repr__(self):
        return 'Arc(%r)' % (self.slot[0],)


class MutexModel:
    """Mutex / RwLock / RefCell in a single-threaded execution: lock always succeeds."""
    model_name = 'Mutex'

    def __init__(self, v):
        self.slot = [v]

    def clone_model(self, ex=None):
        return MutexModel(deep_copy(self.slot[0]))

    def __repr__(self):
        return 'Mutex(%r)' % (self.slot[0],)


class GuardModel:
    model_name = 'MutexGuard'

    def __init__(self, slot):
        self.slot = slot

    def deref_slot(self, ex):
        return self.slot, 0

    def deref_model(self, ex, r):
        return Ref(self.slot, 0)


def seq(v):
    v = deref(v)
    if isinstance(v, SeqModel):
        return v.items, 0, len(v.items), v
    if isinstance(v, SliceRef):
        return v.items, v.lo, v.hi, None
    if isinstance(v, Agg) and v.kind == 'array':
        return v.fields, 0, len(v.fields), None
    from .executor import Unsupported
    raise Unsupported('not a sequence: %r' % (v,))


def as_slice(a):
    """&[T] view of whatever `a` points to."""
    if isinstance(a, SliceRef):
        return a
    items, lo, hi, _ = seq(a)
    return SliceRef(items, lo, hi)


def install(w):
    from .executor import Unsupported
    M = w.models

    def idx(ex, v, n, what='index'):
        i = ex.concretize(v, 0, n + 1)
        return i

    # ------------------------------------------------------------------ constructors
    for T, cls in (('Vec', VecModel), ('VecDeque', DequeModel)):
        M['%s::new' % T] = (lambda cls: lambda ex, c, a: cls())(cls)
        M['%s::with_capacity' % T] = (lambda cls: lambda ex, c, a: cls())(cls)
        M['default:%s' % T] = (lambda cls: lambda ex, ty: cls())(cls)
        M['<%s as Default>::default' % T] = (lambda cls: lambda ex, c, a: cls())(cls)
    for T in ('HashMap', 'IndexMap', 'HashSet', 'IndexSet', 'BTreeMap', 'BTreeSet'):
        for ctor in ('new', 'with_capacity', 'with_hasher', 'with_capacity_and_hasher', 'default'):
            M['%s::%s' % (T, ctor)] = (lambda T: lambda ex, c, a: MapModel(T))(T)
        M['default:%s' % T] = (lambda T: lambda ex, ty: MapModel(T))(T)
        M['<%s as Default>::default' % T] = (lambda T: lambda ex, c, a: MapModel(T))(T)

    def vec_from_elem(ex, c, a):
        n = ex.concretize(a[1], 0, 65)
        return VecModel([deep_copy(a[0]) for _ in range(n)])
    M['vec::from_elem'] = vec_from_elem
    M['from_elem'] = vec_from_elem

    def slice_into_vec(ex, c, a):
        b = a[0]
        v = b.slot[0] if isinstance(b, BoxModel) else deref(b)
        if isinstance(v, Agg) and v.kind == 'array':
            return VecModel(v.fields)
        if isinstance(v, SliceRef):
            return VecModel(v.items[v.lo:v.hi])
        raise Unsupported('into_vec of %r' % (v,))
    M['[slice]::into_vec'] = slice_into_vec

    def box_new(ex, c, a):
        return BoxModel(a[0])
    M['Box::new_uninit'] = lambda ex, c, a: BoxModel(Transparent())

    def box_into_vec(ex, c, a):
        v = a[0].slot[0]
        if isinstance(v, Transparent):
            v = v.payload()
        if isinstance(v, Agg) and v.kind == 'array':
            return VecModel(v.fields)
        raise Unsupported('box_assume_init_into_vec_unsafe of %r' % (v,))
    M['boxed::box_assume_init_into_vec_unsafe'] = box_into_vec
    M['box_assume_init_into_vec_unsafe'] = box_into_vec
    M['Box::new'] = box_new
    M['boxed::box_new'] = box_new
    M['box_new'] = box_new

    # ------------------------------------------------------------------ Vec / VecDeque / slices
    def s_len(ex, c, a):
        items, lo, hi, _ = seq(a[0])
        return Int('usize', hi - lo)

    def s_is_empty(ex, c, a):
        items, lo, hi, _ = seq(a[0])
        return hi == lo

    def s_push(ex, c, a):
        deref(a[0]).items.append(a[1])
        return unit()

    def s_push_front(ex, c, a):
        deref(a[0]).items.insert(0, a[1])
        return unit()

    def s_pop(ex, c, a):
        v = deref(a[0])
        return some(v.items.pop()) if v.items else none()

    def s_pop_front(ex, c, a):
        v = deref(a[0])
        return some(v.items.pop(0)) if v.items else none()

    def s_first(ex, c, a):
        items, lo, hi, _ = seq(a[0])
        return some(Ref(items, lo)) if hi > lo else none()

    def s_last(ex, c, a):
        items, lo, hi, _ = seq(a[0])
        return some(Ref(items, hi - 1)) if hi > lo else none()

    def s_get(ex, c, a):
        items, lo, hi, _ = seq(a[0])
        if not isinstance(a[1], Int):
            raise Unsupported('slice get with range')
        if a[1].concrete:
            i = a[1].v
        else:
            inb = ex.binop('Lt', a[1], Int('usize', hi - lo))
            if not ex.branch(inb, 'get in bounds'):
                return none()
            i = ex.concretize(a[1], 0, hi - lo)
        if 0 <= i < hi - lo:
            return some(Ref(items, lo + i))
        return none()

    def s_index(ex, c, a):
        items, lo, hi, _ = seq(a[0])
        i = a[1]
        if isinstance(i, Int):
            if i.concrete:
                k = i.v
            else:
                inb = ex.binop('Lt', i, Int('usize', hi - lo))
                if not ex.branch(inb, 'index in bounds'):
                    _panic('index out of bounds')
                k = ex.concretize(i, 0, hi - lo)
            if not 0 <= k < hi - lo:
                _panic('index out of bounds: the len is %d but the index is %d' % (hi - lo, k))
            return Ref(items, lo + k)
        if isinstance(i, Agg) and i.base in ('Range', 'RangeFrom', 'RangeTo', 'RangeFull', 'RangeInclusive'):
            s, e = range_bounds(ex, i, hi - lo)
            if s > e or e > hi - lo:
                _panic('slice index out of range')
            return SliceRef(items, lo + s, lo + e)
        raise Unsupported('index with %r' % (i,))

    def range_bounds(ex, r, n):
        b = r.base
        if b == 'RangeFull':
            return 0, n
        if b == 'Range':
            return ex.concretize(r.fields[0], 0, n + 2), ex.concretize(r.fields[1], 0, n + 2)
        if b == 'RangeFrom':
            return ex.concretize(r.fields[0], 0, n + 2), n
        if b == 'RangeTo':
            return 0, ex.concretize(r.fields[0], 0, n + 2)
        raise Unsupported('range kind ' + b)
    w.range_bounds = range_bounds

    def s_clear(ex, c, a):
        v = deref(a[0])
        for x in v.items:
            ex.drop_value(x)
        v.items[:] = []
        return unit()

    def s_insert(ex, c, a):
        v = deref(a[0])
        i = ex.concretize(a[1], 0, len(v.items) + 1)
        if i > len(v.items):
            _panic('insertion index out of bounds')
        v.items.insert(i, a[2])
        return unit()

    def s_remove(ex, c, a):
        v = deref(a[0])
        i = ex.concretize(a[1], 0, len(v.items) + 1)
        if i >= len(v.items):
            if isinstance(v, DequeModel):
                return none()
            _panic('removal index out of bounds')
        x = v.items.pop(i)
        return some(x) if isinstance(v, DequeModel) else x

    def s_swap_remove(ex, c, a):
        v = deref(a[0])
        i = ex.concretize(a[1], 0, len(v.items) + 1)
        if i >= len(v.items):
            _panic('swap_remove index out of bounds')
        x = v.items[i]
        v.items[i] = v.items[-1]
        v.items.pop()
        return x

    def s_truncate(ex, c, a):
        v = deref(a[0])
        n = ex.concretize(a[1], 0, len(v.items) + 2)
        del v.items[n:]
        return unit()

    def s_drain(ex, c, a):
        v = deref(a[0])
        s, e = range_bounds(ex, a[1], len(v.items))
        if s > e or e > len(v.items):
            _panic('drain range out of bounds')
        out = v.items[s:e]
        del v.items[s:e]
        return ListIter(out)

    def s_append(ex, c, a):
        v, o = deref(a[0]), deref(a[1])
        v.items.extend(o.items)
        o.items[:] = []
        return unit()

    def s_split_off(ex, c, a):
        v = deref(a[0])
        n = ex.concretize(a[1], 0, len(v.items) + 2)
        if n > len(v.items):
            _panic('split_off out of bounds')
        out = type(v)(v.items[n:])
        del v.items[n:]
        return out

    def s_iter(ex, c, a):
        items, lo, hi, _ = seq(a[0])
        return ListIter([Ref(items, i) for i in range(lo, hi)])

    def s_retain(ex, c, a):
        v = deref(a[0])
        keep = []
        for i in range(len(v.items)):
            if ex.branch(ex.call_value(a[1], [Ref(v.items, i)]), 'retain'):
                keep.append(v.items[i])
            else:
                ex.drop_value(v.items[i])
        v.items[:] = keep
        return unit()

    def s_contains(ex, c, a):
        items, lo, hi, _ = seq(a[0])
        for i in range(lo, hi):
            if ex.branch(values_eq(ex, items[i], a[1]), 'contains'):
                return True
        return False

    def s_extend_from_slice(ex, c, a):
        v = deref(a[0])
        items, lo, hi, _ = seq(a[1])
        v.items.extend(ex.w.clone_value(ex, x) for x in items[lo:hi])
        return unit()

    def s_as_slice(ex, c, a):
        return as_slice(a[0])

    def s_make_contiguous(ex, c, a):
        return as_slice(a[0])

    def s_as_slices(ex, c, a):
        sl = as_slice(a[0])
        return Agg('tuple', None, [sl, SliceRef([], 0, 0)])

    def s_partition_point(ex, c, a):
        items, lo, hi, _ = seq(a[0])
        # real implementation is a binary search; on a partitioned slice the result is the number of
        # leading elements satisfying the predicate.  We evaluate the predicate left to right and
        # additionally require (as the std contract does) that the slice is partitioned.
        k = lo
        while k < hi and ex.branch(ex.call_value(a[1], [Ref(items, k, False)]), 'partition_point'):
            k += 1
        for j in range(k + 1, hi):
            if ex.branch(ex.call_value(a[1], [Ref(items, j, False)]), 'partition_point tail'):
                raise Unsupported('partition_point on a slice that is not partitioned')
        return Int('usize', k - lo)

    def s_sort_generic(ex, items, lo, hi, cmp):
        """stable insertion sort with forking comparisons"""
        xs = items[lo:hi]
        out = []
        for x in xs:
            j = len(out)
            while j > 0 and cmp(out[j - 1], x) > 0:
                j -= 1
            out.insert(j, x)
        items[lo:hi] = out
    w.sort_generic = s_sort_generic

    def ord_cmp(ex, x, y):
        """three-way comparison honouring a crate `impl Ord` (e.g. compare by timestamp only)"""
        xv = deref(x)
        if isinstance(xv, (Agg, Enum)) and not (isinstance(xv, Agg) and xv.kind in ('tuple', 'array')):
            f = ex.find_impl('Ord', xv.base, 'cmp')
            if f is not None:
                return ex.call_function(f, [Ref([xv], 0, False), Ref([deref(y)], 0, False)]).idx
        return values_cmp(ex, x, y)
    w.ord_cmp = ord_cmp

    def s_sort(ex, c, a):
        items, lo, hi, _ = seq(a[0])
        s_sort_generic(ex, items, lo, hi, lambda x, y: ord_cmp(ex, x, y))
        return unit()
    M['sort_with_vec'] = s_sort
    M['glidesort::sort_with_vec'] = s_sort

    def s_sort_by(ex, c, a):
        items, lo, hi, _ = seq(a[0])
        s_sort_generic(ex, items, lo, hi,
                       lambda x, y: ex.call_value(a[1], [Ref([x], 0, False), Ref([y], 0, False)]).idx)
        return unit()

    def s_sort_by_key(ex, c, a):
        items, lo, hi, _ = seq(a[0])
        s_sort_generic(ex, items, lo, hi, lambda x, y: values_cmp(
            ex, ex.call_value(a[1], [Ref([x], 0, False)]), ex.call_value(a[1], [Ref([y], 0, False)])))
        return unit()

    def s_reverse(ex, c, a):
        items, lo, hi, _ = seq(a[0])
        items[lo:hi] = items[lo:hi][::-1]
        return unit()

    def s_swap(ex, c, a):
        items, lo, hi, _ = seq(a[0])
        i, j = ex.concretize(a[1], 0, hi - lo), ex.concretize(a[2], 0, hi - lo)
        items[lo + i], items[lo + j] = items[lo + j], items[lo + i]
        return unit()

    def s_to_vec(ex, c, a):
        items, lo, hi, _ = seq(a[0])
        return VecModel([ex.w.clone_value(ex, x) for x in items[lo:hi]])

    def s_dedup(ex, c, a):
        v = deref(a[0])
        out = []
        for x in v.items:
            if out and ex.branch(values_eq(ex, out[-1], x), 'dedup'):
                continue
            out.append(x)
        v.items[:] = out
        return unit()

    def s_binary_search_by(ex, c, a):
        raise Unsupported('binary_search_by')

    def s_reserve(ex, c, a):
        return unit()

    def s_capacity(ex, c, a):
        items, lo, hi, _ = seq(a[0])
        return Int('usize', max(hi - lo, 4))

    def s_split_at(ex, c, a):
        items, lo, hi, _ = seq(a[0])
        k = ex.concretize(a[1], 0, hi - lo + 2)
        if k > hi - lo:
            _panic('split_at out of bounds')
        return Agg('tuple', None, [SliceRef(items, lo, lo + k), SliceRef(items, lo + k, hi)])

    table = {
        'len': s_len, 'is_empty': s_is_empty, 'push': s_push, 'push_back': s_push, 'push_front': s_push_front,
        'pop': s_pop, 'pop_back': s_pop, 'pop_front': s_pop_front, 'first': s_first, 'front': s_first,
        'front_mut': s_first, 'first_mut': s_first, 'last': s_last, 'back': s_last, 'back_mut': s_last,
        'last_mut': s_last, 'get': s_get, 'get_mut': s_get, 'clear': s_clear, 'insert': s_insert,
        'remove': s_remove, 'swap_remove': s_swap_remove, 'truncate': s_truncate, 'drain': s_drain,
        'append': s_append, 'split_off': s_split_off, 'iter': s_iter, 'iter_mut': s_iter, 'retain': s_retain,
        'retain_mut': s_retain, 'contains': s_contains, 'extend_from_slice': s_extend_from_slice,
        'as_slice': s_as_slice, 'as_mut_slice': s_as_slice, 'make_contiguous': s_make_contiguous,
        'as_slices': s_as_slices, 'partition_point': s_partition_point, 'sort': s_sort,
        'sort_unstable': s_sort, 'sort_by': s_sort_by, 'sort_unstable_by': s_sort_by,
        'sort_by_key': s_sort_by_key, 'sort_unstable_by_key': s_sort_by_key, 'reverse': s_reverse,
        'swap': s_swap, 'to_vec': s_to_vec, 'dedup': s_dedup, 'reserve': s_reserve,
        'shrink_to_fit': s_reserve, 'capacity': s_capacity, 'split_at': s_split_at,
        'split_at_mut': s_split_at, 'reserve_exact': s_reserve,
    }
    for T in ('Vec', 'VecDeque', '[slice]'):
        for name, f in table.items():
            M['%s::%s' % (T, name)] = f
        M['<%s as Index>::index' % T] = s_index
        M['<%s as IndexMut>::index_mut' % T] = s_index
    # glidesort free functions (stable sorts)
    M['sort_by_key'] = s_sort_by_key
    M['glidesort::sort_by_key'] = s_sort_by_key
    M['sort_by'] = s_sort_by
    M['glidesort::sort_by'] = s_sort_by
    M['glidesort::sort'] = s_sort
    M['<Vec as Deref>::deref'] = s_as_slice
    M['<Vec as DerefMut>::deref_mut'] = s_as_slice
    M['<Vec as AsRef>::as_ref'] = s_as_slice
    M['<Vec as From>::from'] = lambda ex, c, a: VecModel(list(seq(a[0])[0][seq(a[0])[1]:seq(a[0])[2]])) \
        if not isinstance(a[0], SeqModel) else VecModel(a[0].items)
    M['<VecDeque as From>::from'] = lambda ex, c, a: DequeModel(a[0].items)

    # ------------------------------------------------------------------ maps
    def m_get(ex, c, a):
        m = deref(a[0])
        i = m.find(ex, a[1])
        return none() if i is None else some(Ref(m.entries[i], 1))

    def m_contains_key(ex, c, a):
        m = deref(a[0])
        return m.find(ex, a[1]) is not None

    def m_insert(ex, c, a):
        m = deref(a[0])
        if m.kind.endswith('Set'):
            return m.insert(ex, a[1], unit()) is None
        old = m.insert(ex, a[1], a[2])
        return none() if old is None else some(old)

    def m_remove(ex, c, a):
        m = deref(a[0])
        i = m.find(ex, a[1])
        if m.kind.endswith('Set'):
            if i is not None:
                m.entries.pop(i)
            return i is not None
        if i is None:
            return none()
        return some(m.entries.pop(i)[1])

    def m_remove_entry(ex, c, a):
        m = deref(a[0])
        i = m.find(ex, a[1])
        if i is None:
            return none()
        k, v = m.entries.pop(i)
        return some(Agg('tuple', None, [k, v]))

    def m_len(ex, c, a):
        return Int('usize', len(deref(a[0]).entries))

    def m_is_empty(ex, c, a):
        return not deref(a[0]).entries

    def m_clear(ex, c, a):
        deref(a[0]).entries[:] = []
        return unit()

    def m_index(ex, c, a):
        m = deref(a[0])
        i = m.find(ex, a[1])
        if i is None:
            _panic('map index: key not found')
        return Ref(m.entries[i], 1)

    def m_iter(ex, c, a):
        m = deref(a[0])
        if m.kind.endswith('Set'):
            return ListIter([Ref(m.entries[i], 0, False) for i in m.order(ex)])
        return ListIter([Agg('tuple', None, [Ref(m.entries[i], 0, False), Ref(m.entries[i], 1)])
                         for i in m.order(ex)])

    def m_values(ex, c, a):
        m = deref(a[0])
        return ListIter([Ref(m.entries[i], 1) for i in m.order(ex)])

    def m_keys(ex, c, a):
        m = deref(a[0])
        return ListIter([Ref(m.entries[i], 0, False) for i in m.order(ex)])

    def m_into_values(ex, c, a):
        m = a[0]
        return ListIter([m.entries[i][1] for i in m.order(ex)])

    def m_into_keys(ex, c, a):
        m = a[0]
        return ListIter([m.entries[i][0] for i in m.order(ex)])

    def m_drain(ex, c, a):
        m = deref(a[0])
        es = [m.entries[i] for i in m.order(ex)]
        m.entries = []
        if m.kind.endswith('Set'):
            return ListIter([k for k, v in es])
        return ListIter([Agg('tuple', None, [k, v]) for k, v in es])

    def m_retain(ex, c, a):
        m = deref(a[0])
        keep = []
        for i in m.order(ex):
            e = m.entries[i]
            args = [Ref(e, 0, False)] if m.kind.endswith('Set') else [Ref(e, 0, False), Ref(e, 1)]
            if ex.branch(ex.call_value(a[1], args), 'map retain'):
                keep.append(e)
        m.entries = keep
        return unit()

    def m_entry(ex, c, a):
        m = deref(a[0])
        i = m.find(ex, a[1])
        return EntryModel(m, a[1], i)

    def m_get_index(ex, c, a):
        m = deref(a[0])
        i = ex.concretize(a[1], 0, len(m.entries) + 1)
        if i >= len(m.entries):
            return none()
        e = m.entries[i]
        if m.kind.endswith('Set'):
            return some(Ref(e, 0, False))
        return some(Agg('tuple', None, [Ref(e, 0, False), Ref(e, 1)]))

    def m_sort(ex, c, a):
        m = deref(a[0])
        es = m.entries
        w.sort_generic(ex, es, 0, len(es), lambda x, y: values_cmp(ex, x[0], y[0]))
        return unit()

    mtable = {'get': m_get, 'get_mut': m_get, 'contains_key': m_contains_key, 'contains': m_contains_key,
              'insert': m_insert, 'remove': m_remove, 'swap_remove': m_remove, 'shift_remove': m_remove,
              'remove_entry': m_remove_entry, 'len': m_len, 'is_empty': m_is_empty, 'clear': m_clear,
              'iter': m_iter, 'iter_mut': m_iter, 'values': m_values, 'values_mut': m_values,
              'keys': m_keys, 'into_values': m_into_values, 'into_keys': m_into_keys, 'drain': m_drain,
              'retain': m_retain, 'entry': m_entry, 'get_index': m_get_index, 'sort': m_sort,
              'sort_unstable': m_sort, 'sort_keys': m_sort, 'reserve': lambda ex, c, a: unit()}
    for T in ('HashMap', 'IndexMap', 'HashSet', 'IndexSet', 'BTreeMap', 'BTreeSet'):
        for name, f in mtable.items():
            M['%s::%s' % (T, name)] = f
        M['<%s as Index>::index' % T] = m_index
        M['<%s as IndexMut>::index_mut' % T] = m_index

    class EntryModel:
        model_name = 'Entry'

        def __init__(self, m, key, i):
            self.m, self.key, self.i = m, key, i

        def discriminant(self, ex):
            return 0 if self.i is not None else 1

        def field_slot(self, ex, idx, ty=''):
            return [self], 0

        def slot_for(self, ex, mk):
            if self.i is None:
                self.m.entries.append([self.key, mk()])
                self.i = len(self.m.entries) - 1
            return Ref(self.m.entries[self.i], 1)

    def e_or_insert_with(ex, c, a):
        return a[0].slot_for(ex, lambda: ex.call_value(a[1], []))

    def e_or_insert(ex, c, a):
        return a[0].slot_for(ex, lambda: a[1])

    def e_or_default(ex, c, a):
        ty = generic_arg(c.tgenerics, 1)
        return a[0].slot_for(ex, lambda: ex.w.default_of(ex, ty))

    def e_and_modify(ex, c, a):
        e = a[0]
        if e.i is not None:
            ex.call_value(a[1], [Ref(e.m.entries[e.i], 1)])
        return e
    def ve_insert(ex, c, a):
        return a[0].slot_for(ex, lambda: a[1])
    M['VacantEntry::insert'] = ve_insert
    M['VacantEntry::insert_entry'] = lambda ex, c, a: (a[0].slot_for(ex, lambda: a[1]), a[0])[1]

    def oe_get_mut(ex, c, a):
        e = deref(a[0])
        return Ref(e.m.entries[e.i], 1)
    M['OccupiedEntry::get_mut'] = oe_get_mut
    M['OccupiedEntry::get'] = oe_get_mut
    M['OccupiedEntry::into_mut'] = oe_get_mut

    def oe_insert(ex, c, a):
        e = deref(a[0])
        old = e.m.entries[e.i][1]
        e.m.entries[e.i][1] = a[1]
        return old
    M['OccupiedEntry::insert'] = oe_insert

    def oe_remove(ex, c, a):
        e = deref(a[0])
        return e.m.entries.pop(e.i)[1]
    M['OccupiedEntry::remove'] = oe_remove
    M['OccupiedEntry::swap_remove'] = oe_remove
    M['OccupiedEntry::shift_remove'] = oe_remove

    def oe_remove_entry(ex, c, a):
        e = deref(a[0])
        k, v = e.m.entries.pop(e.i)
        return Agg('tuple', None, [k, v])
    M['OccupiedEntry::remove_entry'] = oe_remove_entry

    def e_key(ex, c, a):
        e = deref(a[0])
        if e.i is not None:
            return Ref(e.m.entries[e.i], 0, False)
        return Ref([e.key], 0, False)
    M['OccupiedEntry::key'] = e_key
    M['VacantEntry::key'] = e_key
    M['Entry::key'] = e_key
    M['Entry::or_insert_with'] = e_or_insert_with
    M['Entry::or_insert'] = e_or_insert
    M['Entry::or_default'] = e_or_default
    M['Entry::and_modify'] = e_and_modify

    # ------------------------------------------------------------------ Arc / Mutex
    M['Arc::new'] = lambda ex, c, a: ArcModel(a[0])
    M['Rc::new'] = lambda ex, c, a: ArcModel(a[0])
    M['<Arc as Clone>::clone'] = lambda ex, c, a: ArcModel(slot=deref(a[0]).slot)
    M['<Rc as Clone>::clone'] = lambda ex, c, a: ArcModel(slot=deref(a[0]).slot)
    # atomics in a single-threaded execution: a cell
    for _A in ('AtomicUsize', 'AtomicU64', 'AtomicBool', 'Atomic'):
        M[_A + '::new'] = lambda ex, c, a: MutexModel(a[0])
        M[_A + '::load'] = lambda ex, c, a: deep_copy(deref(a[0]).slot[0])
        M[_A + '::store'] = lambda ex, c, a: (deref(a[0]).slot.__setitem__(0, a[1]), unit())[1]

        def _fetch_add(ex, c, a):
            m = deref(a[0])
            old = m.slot[0]
            m.slot[0] = ex.binop('Add', old, a[1])
            return old
        M[_A + '::fetch_add'] = _fetch_add
    M['Mutex::new'] = lambda ex, c, a: MutexModel(a[0])
    M['RwLock::new'] = lambda ex, c, a: MutexModel(a[0])
    M['RefCell::new'] = lambda ex, c, a: MutexModel(a[0])

    def mutex_lock(ex, c, a):
        m = deref(a[0])
        g = GuardModel(m.slot)
        if c.typebase == 'Mutex' and 'parking_lot' not in (c.typath or '') and 'lock_api' not in (c.typath or ''):
            # std Mutex::lock returns LockResult
            if 'std::sync' in (c.typath or '') or c.typath in ('Mutex', 'std::sync::Mutex'):
                return ok(g)
        return g
    def condvar_wait_while(ex, c, a):
        # single-threaded: if the predicate holds nobody can ever change it -> the call blocks forever
        guard = a[1].fields[0] if isinstance(a[1], Enum) else a[1]
        if ex.branch(ex.call_value(a[2], [Ref(guard.slot, 0)]), 'condvar predicate'):
            ex.env['condvar_blocked'] = True
        return ok(guard)
    M['Condvar::wait_while'] = condvar_wait_while
    M['Condvar::notify_all'] = lambda ex, c, a: unit()
    M['Condvar::notify_one'] = lambda ex, c, a: unit()
    # single-threaded barrier / lazy cell
    M['Barrier::new'] = lambda ex, c, a: Opaque('Barrier', a[0])
    M['Barrier::wait'] = lambda ex, c, a: Opaque('BarrierWaitResult')

    def lazy_get_or_create(ex, c, a):
        cell = deref(a[0])
        if not isinstance(cell, MutexModel):
            raise Unsupported('Lazy cell %r' % (cell,))
        if cell.slot[0] is None:
            cell.slot[0] = ex.call_value(a[1], [])
        return Ref(cell.slot, 0)
    M['Lazy::get_or_create'] = lazy_get_or_create
    M['default:Lazy'] = lambda ex, ty: MutexModel(None)
    M['<Lazy as Default>::default'] = lambda ex, c, a: MutexModel(None)
    M['Mutex::lock'] = mutex_lock
    M['RwLock::write'] = mutex_lock
    M['RwLock::read'] = mutex_lock
    M['RefCell::borrow_mut'] = lambda ex, c, a: GuardModel(deref(a[0]).slot)
    M['RefCell::borrow'] = lambda ex, c, a: GuardModel(deref(a[0]).slot)
