"""Model table: semantics of the functions *outside* the crate that the crate's MIR calls.

Every entry is small and is listed in the evidence of a run when it was used.  Containers keep a
concrete shape with symbolic contents; comparisons on symbolic data fork through `ex.branch`.
"""
import re
import z3

from .values import (Int, Agg, Enum, Ref, SliceRef, FnItem, Opaque, UNINIT, INT_BITS, is_signed, norm,
                     is_sym, simp, mk_int, unit, deep_copy, base_name)
from .parse import split_top, strip_generics


def _U():
    from .executor import Unsupported
    return Unsupported


def _panic(msg):
    from .executor import RustPanic
    raise RustPanic(msg)


def deref(v):
    while isinstance(v, Ref):
        v = v.get()
    return v


def some(v):
    return Enum('std::option::Option', 'Some', 1, [v])


def none():
    return Enum('std::option::Option', 'None', 0, [])


def ok(v):
    return Enum('std::result::Result', 'Ok', 0, [v])


def err(v):
    return Enum('std::result::Result', 'Err', 1, [v])


def int_min(ty):
    return -(1 << (INT_BITS[ty] - 1)) if is_signed(ty) else 0


def int_max(ty):
    return (1 << (INT_BITS[ty] - 1)) - 1 if is_signed(ty) else (1 << INT_BITS[ty]) - 1


def lt(ex, a, b):
    return ex.binop('Lt', a, b)


def le(ex, a, b):
    return ex.binop('Le', a, b)


def eq(ex, a, b):
    return ex.binop('Eq', a, b)


def zbool(c):
    return z3.BoolVal(c) if isinstance(c, bool) else c


def ite_int(c, a, b):
    """if c then a else b on Ints without forking."""
    if isinstance(c, bool):
        return a if c else b
    return mk_int(a.ty, z3.If(c, a.z(), b.z()))


# ---------------------------------------------------------------------------------------
# structural equality / ordering of run-time values (used by PartialEq/Ord models, maps)
# ---------------------------------------------------------------------------------------

def values_eq(ex, a, b):
    """Symbolic equality of two values: python bool or z3 Bool."""
    a, b = deref(a), deref(b)
    if isinstance(a, Int) and isinstance(b, Int):
        return ex.binop('Eq', a, b)
    if isinstance(a, bool) or isinstance(b, bool) or (is_sym(a) and z3.is_bool(a)):
        return ex._bool_binop('Eq', a, b)
    if isinstance(a, Enum) and isinstance(b, Enum):
        if a.idx != b.idx:
            return False
        return _all_eq(ex, a.fields, b.fields)
    if isinstance(a, Agg) and isinstance(b, Agg):
        if len(a.fields) != len(b.fields):
            return False
        return _all_eq(ex, a.fields, b.fields)
    if isinstance(a, str) and isinstance(b, str):
        return a == b
    if hasattr(a, 'items') and hasattr(b, 'items') and not isinstance(a, dict):
        if len(a.items) != len(b.items):
            return False
        return _all_eq(ex, a.items, b.items)
    if isinstance(a, SliceRef) and isinstance(b, SliceRef):
        if len(a) != len(b):
            return False
        return _all_eq(ex, a.items[a.lo:a.hi], b.items[b.lo:b.hi])
    if isinstance(a, Opaque) and isinstance(b, Opaque):
        return a.data == b.data
    raise _U()('values_eq(%r, %r)' % (a, b))


def _all_eq(ex, xs, ys):
    acc = True
    for x, y in zip(xs, ys):
        e = values_eq(ex, x, y)
        if e is False:
            return False
        if e is True:
            continue
        acc = e if acc is True else z3.And(acc, e)
    return simp(acc) if acc is not True else True


def values_cmp(ex, a, b):
    """Three-way comparison with forking: returns -1/0/1."""
    a, b = deref(a), deref(b)
    if isinstance(a, Int) and isinstance(b, Int):
        if ex.branch(ex.binop('Lt', a, b), 'cmp<'):
            return -1
        if ex.branch(ex.binop('Eq', a, b), 'cmp='):
            return 0
        return 1
    if isinstance(a, bool) and isinstance(b, bool):
        return (a > b) - (a < b)
    if isinstance(a, Enum) and isinstance(b, Enum):
        if a.idx != b.idx:
            return -1 if a.idx < b.idx else 1
        return _lex_cmp(ex, a.fields, b.fields)
    if isinstance(a, Agg) and isinstance(b, Agg):
        return _lex_cmp(ex, a.fields, b.fields)
    if isinstance(a, str) and isinstance(b, str):
        return (a > b) - (a < b)
    raise _U()('values_cmp(%r, %r)' % (a, b))


def _lex_cmp(ex, xs, ys):
    for x, y in zip(xs, ys):
        c = values_cmp(ex, x, y)
        if c:
            return c
    return (len(xs) > len(ys)) - (len(xs) < len(ys))


# ---------------------------------------------------------------------------------------

def generic_arg(text, k=0):
    """k-th generic argument of `Foo::<A, B>` / `<A, B>` text."""
    if text is None:
        return None
    i = text.find('<')
    if i < 0:
        return None
    from .parse import match_close
    j = match_close(text, i)
    parts = [q for q in split_top(text[i + 1:j]) if not q.strip().startswith("'")]
    return parts[k].strip() if k < len(parts) else None


def install(w):
    from . import models_core, models_coll, models_iter, models_env, models_wire
    models_core.install(w)
    models_coll.install(w)
    models_iter.install(w)
    models_env.install(w)
    models_wire.install(w)
