"""Environment models: clock (arbitrary non-decreasing instants), hashing (uninterpreted function of
seed and key), randomness (fresh symbolic value)."""
import z3

from .values import Int, Agg, Enum, Ref, Opaque, INT_BITS, is_sym, mk_int, unit, deep_copy
from .models import deref, some, none, generic_arg

NANOS = {'from_nanos': 1, 'from_micros': 1000, 'from_millis': 1000000, 'from_secs': 1000000000}


class HasherModel:
    model_name = 'Hasher'

    def __init__(self, kind, seed):
        self.kind = kind
        self.seed = seed
        self.fed = []

    def clone_model(self, ex=None):
        h = HasherModel(self.kind, self.seed)
        h.fed = list(self.fed)
        return h


_hash_fns = {}


def hash_fn(kind, n):
    key = (kind, n)
    if key not in _hash_fns:
        _hash_fns[key] = z3.Function('hash_%s_%d' % (kind, n), *([z3.BitVecSort(64)] * (n + 3)))
    return _hash_fns[key]


def feed(ex, h, v):
    v = deref(v)
    if isinstance(v, Int):
        h.fed.append(v.z() if v.bits == 64 else (z3.ZeroExt(64 - v.bits, v.z()) if v.bits < 64 else
                                                 z3.Extract(63, 0, v.z())))
    elif isinstance(v, bool):
        h.fed.append(z3.BitVecVal(int(v), 64))
    elif isinstance(v, (Agg, Enum)):
        if isinstance(v, Enum):
            h.fed.append(z3.BitVecVal(v.idx, 64))
        for f in v.fields:
            feed(ex, h, f)
    elif isinstance(v, str):
        h.fed.append(z3.BitVecVal(hash(v) & ((1 << 64) - 1), 64))
    elif hasattr(v, 'items'):
        h.fed.append(z3.BitVecVal(len(v.items), 64))
        for f in v.items:
            feed(ex, h, f)
    else:
        from .executor import Unsupported
        raise Unsupported('hash of %r' % (v,))


def install(w):
    from .executor import Unsupported
    M = w.models

    # ------------------------------------------------------------------ clock
    def now(ex, c, a):
        script = ex.env.get('clock_script')
        if script is not None:
            if not script:
                raise Unsupported('clock script exhausted')
            t = script.pop(0)
            ex.env['clock_now'] = t
            ex.env.setdefault('clock_log', []).append(t)
            return t
        prev = ex.env.get('clock_now')
        d = ex.fresh_int('u64', 'clock_delta')
        ex.assume(z3.ULT(d.v, z3.BitVecVal(1 << 40, 64)))
        t = d if prev is None else mk_int('u64', prev.z() + d.v)
        if prev is None:
            ex.assume(z3.ULT(d.v, z3.BitVecVal(1 << 40, 64)))
        ex.env['clock_now'] = t
        ex.env.setdefault('clock_log', []).append(t)
        return t
    M['Instant::now'] = now
    M['Instant::recent'] = now

    def elapsed(ex, c, a):
        t0 = deref(a[0])
        t1 = now(ex, c, [])
        return ex.binop('Sub', t1, t0)
    M['Instant::elapsed'] = elapsed

    def duration_since(ex, c, a):
        x, y = deref(a[0]), deref(a[1])
        later = ex.binop('Ge', x, y)
        from .models import ite_int
        return ite_int(later, ex.binop('Sub', x, y), Int('u64', 0))
    M['Instant::duration_since'] = duration_since
    M['Instant::saturating_duration_since'] = duration_since

    def inst_add(ex, c, a):
        return ex.binop('Add', deref(a[0]), deref(a[1]))
    M['<Instant as Add>::add'] = inst_add
    M['<Duration as Add>::add'] = inst_add

    def inst_sub(ex, c, a):
        return ex.binop('Sub', deref(a[0]), deref(a[1]))
    M['<Instant as Sub>::sub'] = inst_sub
    M['<Duration as Sub>::sub'] = inst_sub

    for name, mul in NANOS.items():
        M['Duration::' + name] = (lambda mul: lambda ex, c, a: ex.binop('Mul', ex.cast(a[0], 'u64', 'IntToInt'),
                                                                          Int('u64', mul)))(mul)
    M['Duration::is_zero'] = lambda ex, c, a: ex.binop('Eq', deref(a[0]), Int('u64', 0))
    M['Duration::as_nanos'] = lambda ex, c, a: ex.cast(deref(a[0]), 'u128', 'IntToInt')
    M['Duration::as_millis'] = lambda ex, c, a: ex.cast(ex.binop('Div', deref(a[0]), Int('u64', 1000000)), 'u128',
                                                        'IntToInt')
    M['<Duration as Into>::into'] = lambda ex, c, a: a[0]
    M['<Duration as From>::from'] = lambda ex, c, a: a[0]

    # ------------------------------------------------------------------ hashing
    def wy_with_seed(ex, c, a):
        return HasherModel('wyhash', a[0])
    M['WyHash::with_seed'] = wy_with_seed
    M['WyHash::default'] = lambda ex, c, a: HasherModel('wyhash', Int('u64', 0))
    M['<WyHash as Default>::default'] = M['WyHash::default']
    M['default:WyHash'] = lambda ex, ty: HasherModel('wyhash', Int('u64', 0))
    M['FxHasher::default'] = lambda ex, c, a: HasherModel('fx', Int('u64', 0))
    M['<FxHasher as Default>::default'] = M['FxHasher::default']
    M['DefaultHasher::new'] = lambda ex, c, a: HasherModel('sip', Int('u64', 0))

    def do_hash(ex, c, a):
        feed(ex, deref(a[1]), a[0])
        return unit()
    M['<_ as Hash>::hash'] = do_hash

    def finish(ex, c, a):
        h = deref(a[0])
        f = hash_fn(h.kind, len(h.fed))
        return mk_int('u64', f(h.seed.z(), z3.BitVecVal(len(h.fed), 64), *h.fed))
    M['<_ as Hasher>::finish'] = finish
    M['<WyHash as Hasher>::finish'] = finish
    M['<FxHasher as Hasher>::finish'] = finish

    def hash_one(ex, c, a):
        # BuildHasherDefault<H>::hash_one(x): H::default(), x.hash(&mut h), h.finish()
        inner = generic_arg(c.selfty) or ''
        kind = 'wyhash' if 'WyHash' in inner else ('fx' if 'Fx' in inner else 'sip')
        h = HasherModel(kind, Int('u64', 0))
        feed(ex, h, a[1])
        return finish(ex, c, [h])
    M['<BuildHasherDefault as BuildHasher>::hash_one'] = hash_one
    M['<_ as BuildHasher>::hash_one'] = hash_one
    M['<BuildHasherDefault as Default>::default'] = lambda ex, c, a: Opaque('BuildHasherDefault')
    M['BuildHasherDefault::default'] = lambda ex, c, a: Opaque('BuildHasherDefault')
    M['default:BuildHasherDefault'] = lambda ex, ty: Opaque('BuildHasherDefault')

    # ------------------------------------------------------------------ randomness
    M['tls_rng'] = lambda ex, c, a: Opaque('TlsWyRand')
    M['nanorand::tls_rng'] = M['tls_rng']
    M['tls::tls_rng'] = M['tls_rng']

    def rng_generate(ex, c, a):
        ty = generic_arg(c.mgenerics)
        if ty not in INT_BITS:
            raise Unsupported('rng generate of ' + str(ty))
        return ex.fresh_int(ty, 'random')
    M['<_ as Rng>::generate'] = rng_generate


# ---------------------------------------------------------------------------------------
# files: File / BufReader over a symbolic byte string held in ex.env['file_bytes']
# ---------------------------------------------------------------------------------------

class FileModel:
    model_name = 'File'

    def __init__(self, data):
        self.data = data
        self.pos = 0


class StringModel:
    """String / Vec<u8> of symbolic bytes"""
    model_name = 'String'

    def __init__(self, items=None):
        self.items = list(items or [])

    def clone_model(self, ex=None):
        return StringModel(self.items)

    def empty_like(self):
        return StringModel()

    def __repr__(self):
        return 'String%r' % (self.items,)


def install_files(w):
    from .executor import Unsupported
    from .models import ok, err
    from .models_coll import VecModel
    M = w.models

    def file_open(ex, c, a):
        data = ex.env.get('file_bytes')
        if data is None:
            raise Unsupported('File::open without a file model')
        return ok(FileModel(data))
    M['File::open'] = file_open
    M['File::metadata'] = lambda ex, c, a: ok(deref(a[0]))
    M['Metadata::len'] = lambda ex, c, a: Int('u64', len(deref(a[0]).data))
    M['BufReader::new'] = lambda ex, c, a: a[0]
    M['BufReader::with_capacity'] = lambda ex, c, a: a[1]
    M['String::new'] = lambda ex, c, a: StringModel()
    M['default:String'] = lambda ex, ty: StringModel()

    def seek(ex, c, a):
        f = deref(a[0])
        sf = a[1]
        off = ex.concretize(sf.fields[0])
        if sf.variant == 'Start':
            f.pos = off
        elif sf.variant == 'Current':
            f.pos += off
        else:
            f.pos = len(f.data) + off
        if f.pos < 0:
            return err(Opaque('io::Error'))
        return ok(Int('u64', f.pos))
    M['<BufReader as Seek>::seek'] = seek
    M['<File as Seek>::seek'] = seek

    def read_until(ex, c, a):
        f = deref(a[0])
        delim = a[1]
        buf = deref(a[2])
        n = 0
        while f.pos < len(f.data):
            b = f.data[f.pos]
            f.pos += 1
            n += 1
            buf.items.append(b)
            if ex.branch(ex.binop('Eq', b, delim), 'byte == delimiter'):
                break
        return ok(Int('usize', n))
    M['<BufReader as BufRead>::read_until'] = read_until

    def read_line(ex, c, a):
        return read_until(ex, c, [a[0], Int('u8', 10), a[1]])
    M['<BufReader as BufRead>::read_line'] = read_line


_old_install = install


def install(w):      # noqa: F811
    _old_install(w)
    install_files(w)
