"""Iterator models.  Every iterator value is a python object with `next(ex) -> Option` semantics
(`it_next(ex)` returns a value or the sentinel END); adapters are lazy, like the real ones."""
import z3

from .values import (Int, Agg, Enum, Ref, SliceRef, FnItem, Opaque, UNINIT, INT_BITS, is_signed, norm,
                     is_sym, simp, mk_int, unit, deep_copy)
from .models import deref, some, none, values_eq, values_cmp, generic_arg, _panic

END = object()


class IterModel:
    model_name = 'IterModel'

    def it_next(self, ex):
        raise NotImplementedError

    def it_next_back(self, ex):
        from .executor import Unsupported
        raise Unsupported('next_back on %s' % type(self).__name__)

    def clone_model(self, ex=None):
        from .executor import Unsupported
        raise Unsupported('clone of iterator %s' % type(self).__name__)


class ListIter(IterModel):
    """Iterator over a fixed python list of already-built item values (by value or as refs)."""

    def __init__(self, items):
        self.items = list(items)
        self.pos = 0
        self.end = len(self.items)

    def it_next(self, ex):
        if self.pos >= self.end:
            return END
        v = self.items[self.pos]
        self.pos += 1
        return v

    def it_next_back(self, ex):
        if self.pos >= self.end:
            return END
        self.end -= 1
        return self.items[self.end]

    def remaining(self):
        return self.end - self.pos

    def clone_model(self, ex=None):
        c = ListIter(self.items)
        c.pos, c.end = self.pos, self.end
        return c


class RangeIter(IterModel):
    """Range<int> used as iterator: the Agg itself is kept (fields start,end)."""


class Adapter(IterModel):
    def __init__(self, inner, f=None):
        self.inner = inner
        self.f = f


class MapIt(Adapter):
    def it_next(self, ex):
        v = it_next(ex, self.inner)
        if v is END:
            return END
        return ex.call_value(self.f, [v])

    def it_next_back(self, ex):
        v = it_next_back(ex, self.inner)
        if v is END:
            return END
        return ex.call_value(self.f, [v])


class FilterIt(Adapter):
    def it_next(self, ex):
        while True:
            v = it_next(ex, self.inner)
            if v is END:
                return END
            h = [v]
            if ex.branch(ex.call_value(self.f, [Ref(h, 0, False)]), 'filter'):
                return h[0]


class FilterMapIt(Adapter):
    def it_next(self, ex):
        while True:
            v = it_next(ex, self.inner)
            if v is END:
                return END
            o = ex.call_value(self.f, [v])
            if o.variant == 'Some':
                return o.fields[0]


class EnumerateIt(Adapter):
    def __init__(self, inner):
        Adapter.__init__(self, inner)
        self.n = 0

    def it_next(self, ex):
        v = it_next(ex, self.inner)
        if v is END:
            return END
        r = Agg('tuple', None, [Int('usize', self.n), v])
        self.n += 1
        return r


class ZipIt(Adapter):
    def it_next(self, ex):
        a = it_next(ex, self.inner)
        if a is END:
            return END
        b = it_next(ex, self.f)
        if b is END:
            return END
        return Agg('tuple', None, [a, b])


class ChainIt(Adapter):
    def it_next(self, ex):
        if self.inner is not None:
            v = it_next(ex, self.inner)
            if v is not END:
                return v
            self.inner = None
        return it_next(ex, self.f)


class RevIt(Adapter):
    def it_next(self, ex):
        return it_next_back(ex, self.inner)

    def it_next_back(self, ex):
        return it_next(ex, self.inner)


class ClonedIt(Adapter):
    def it_next(self, ex):
        v = it_next(ex, self.inner)
        if v is END:
            return END
        return ex.w.clone_value(ex, v)

    def it_next_back(self, ex):
        v = it_next_back(ex, self.inner)
        if v is END:
            return END
        return ex.w.clone_value(ex, v)


class SkipWhileIt(Adapter):
    def __init__(self, inner, f):
        Adapter.__init__(self, inner, f)
        self.done = False

    def it_next(self, ex):
        while True:
            v = it_next(ex, self.inner)
            if v is END:
                return END
            if self.done:
                return v
            h = [v]
            if not ex.branch(ex.call_value(self.f, [Ref(h, 0, False)]), 'skip_while'):
                self.done = True
                return h[0]


class TakeWhileIt(Adapter):
    def __init__(self, inner, f):
        Adapter.__init__(self, inner, f)
        self.done = False

    def it_next(self, ex):
        if self.done:
            return END
        v = it_next(ex, self.inner)
        if v is END:
            return END
        h = [v]
        if ex.branch(ex.call_value(self.f, [Ref(h, 0, False)]), 'take_while'):
            return h[0]
        self.done = True
        return END


class TakeIt(Adapter):
    def it_next(self, ex):
        if self.f <= 0:
            return END
        self.f -= 1
        return it_next(ex, self.inner)


class SkipIt(Adapter):
    def it_next(self, ex):
        while self.f > 0:
            self.f -= 1
            if it_next(ex, self.inner) is END:
                return END
        return it_next(ex, self.inner)


class FlattenIt(Adapter):
    def __init__(self, inner, f=None):
        Adapter.__init__(self, inner, f)
        self.cur = None

    def it_next(self, ex):
        while True:
            if self.cur is not None:
                v = it_next(ex, self.cur)
                if v is not END:
                    return v
                self.cur = None
            o = it_next(ex, self.inner)
            if o is END:
                return END
            if self.f is not None:
                o = ex.call_value(self.f, [o])
            self.cur = into_iter(ex, o)


class PeekableIt(Adapter):
    def __init__(self, inner):
        Adapter.__init__(self, inner)
        self.peeked = None   # None | [value or END]

    def it_next(self, ex):
        if self.peeked is not None:
            v = self.peeked[0]
            self.peeked = None
            return v
        return it_next(ex, self.inner)


# ---------------------------------------------------------------------------------------

def range_parts(r):
    return r.fields[0], r.fields[1]


def it_next(ex, it):
    """Advance any iterator-like value. Returns a value or END."""
    if isinstance(it, Ref):
        tgt = it.get()
        if isinstance(tgt, (IterModel, Ref)) or (isinstance(tgt, Agg) and tgt.base in ('Range', 'RangeInclusive')):
            return it_next(ex, tgt)
        it = tgt
    if isinstance(it, IterModel):
        return it.it_next(ex)
    if isinstance(it, Agg) and it.base == 'Range':
        s, e = it.fields
        if ex.branch(ex.binop('Lt', s, e), 'range.next'):
            it.fields[0] = ex.binop('Add', s, Int(s.ty, 1))
            return s
        return END
    if isinstance(it, Agg) or isinstance(it, Enum):
        # a crate type implementing Iterator
        f = ex.find_impl('Iterator', it.base, 'next')
        if f is not None:
            o = ex.call_function(f, [Ref([it], 0)])
            return o.fields[0] if o.variant == 'Some' else END
    from .executor import PyObj, Unsupported
    if isinstance(it, PyObj):
        o = it.trait_call(ex, 'Iterator', 'next', [it])
        return o.fields[0] if o.variant == 'Some' else END
    raise Unsupported('it_next on %r' % (it,))


def it_next_back(ex, it):
    if isinstance(it, Ref):
        it = it.get()
    if isinstance(it, IterModel):
        return it.it_next_back(ex)
    if isinstance(it, Agg) and it.base == 'Range':
        s, e = it.fields
        if ex.branch(ex.binop('Lt', s, e), 'range.next_back'):
            it.fields[1] = ex.binop('Sub', e, Int(e.ty, 1))
            return it.fields[1]
        return END
    from .executor import Unsupported
    raise Unsupported('it_next_back on %r' % (it,))


def into_iter(ex, v):
    """IntoIterator::into_iter by value."""
    if isinstance(v, IterModel):
        return v
    if isinstance(v, Ref):
        tgt = v.get()
        if hasattr(tgt, 'iter_refs'):
            return ListIter(tgt.iter_refs(v.mut))
        if isinstance(tgt, Agg) and tgt.kind == 'array':
            return ListIter([Ref(tgt.fields, i, v.mut) for i in range(len(tgt.fields))])
        if isinstance(tgt, IterModel):
            return v
        if isinstance(tgt, Enum) and tgt.base == 'Option':
            return ListIter([Ref(tgt.fields, 0, v.mut)] if tgt.variant == 'Some' else [])
        if isinstance(tgt, (Agg, Enum)) and ex.find_impl('Iterator', tgt.base, 'next') is not None:
            return v          # `&mut I` where I is a crate iterator
    if isinstance(v, SliceRef):
        return ListIter([Ref(v.items, i) for i in range(v.lo, v.hi)])
    if hasattr(v, 'into_iter_values'):
        return ListIter(v.into_iter_values(ex))
    if isinstance(v, Agg) and v.kind == 'array':
        return ListIter(v.fields)
    if isinstance(v, Agg) and v.base in ('Range',):
        return v
    if isinstance(v, Enum) and v.base == 'Option':
        return ListIter([v.fields[0]] if v.variant == 'Some' else [])
    if isinstance(v, (Agg, Enum)):
        if ex.find_impl('Iterator', v.base, 'next') is not None:
            return v
        f = ex.find_impl('IntoIterator', v.base, 'into_iter')
        if f is not None:
            return ex.call_function(f, [v])
    from .executor import PyObj, Unsupported
    if isinstance(v, PyObj):
        return v
    raise Unsupported('into_iter of %r' % (v,))


def drain_all(ex, it, limit=4096):
    out = []
    while True:
        v = it_next(ex, it)
        if v is END:
            return out
        out.append(v)
        if len(out) > limit:
            from .executor import BoundExceeded
            raise BoundExceeded('iterator longer than %d' % limit)


def install(w):
    from .executor import Unsupported
    M = w.models

    def m_into_iter(ex, c, a):
        return into_iter(ex, a[0])
    M['<_ as IntoIterator>::into_iter'] = m_into_iter

    def m_next(ex, c, a):
        v = it_next(ex, a[0])
        return none() if v is END else some(v)
    M['<_ as Iterator>::next'] = m_next

    def m_next_back(ex, c, a):
        v = it_next_back(ex, a[0])
        return none() if v is END else some(v)
    M['<_ as DoubleEndedIterator>::next_back'] = m_next_back

    def adapter(cls, nargs=1):
        def f(ex, c, a):
            return cls(into_iter(ex, a[0]), *a[1:1 + nargs])
        return f
    M['<_ as Iterator>::map'] = adapter(MapIt)
    M['<_ as Iterator>::filter'] = adapter(FilterIt)
    M['<_ as Iterator>::filter_map'] = adapter(FilterMapIt)
    M['<_ as Iterator>::skip_while'] = adapter(SkipWhileIt)
    M['<_ as Iterator>::take_while'] = adapter(TakeWhileIt)
    M['<_ as Iterator>::enumerate'] = lambda ex, c, a: EnumerateIt(into_iter(ex, a[0]))
    M['<_ as Iterator>::rev'] = lambda ex, c, a: RevIt(into_iter(ex, a[0]))
    M['<_ as Iterator>::cloned'] = lambda ex, c, a: ClonedIt(into_iter(ex, a[0]))
    M['<_ as Iterator>::copied'] = lambda ex, c, a: ClonedIt(into_iter(ex, a[0]))
    M['<_ as Iterator>::peekable'] = lambda ex, c, a: PeekableIt(into_iter(ex, a[0]))
    M['<_ as Iterator>::fuse'] = lambda ex, c, a: into_iter(ex, a[0])
    M['<_ as Iterator>::by_ref'] = lambda ex, c, a: a[0]
    M['<_ as Iterator>::zip'] = lambda ex, c, a: ZipIt(into_iter(ex, a[0]), into_iter(ex, a[1]))
    M['<_ as Iterator>::chain'] = lambda ex, c, a: ChainIt(into_iter(ex, a[0]), into_iter(ex, a[1]))
    M['<_ as Iterator>::flatten'] = lambda ex, c, a: FlattenIt(into_iter(ex, a[0]))
    M['<_ as Iterator>::flat_map'] = lambda ex, c, a: FlattenIt(into_iter(ex, a[0]), a[1])
    M['<_ as Iterator>::take'] = lambda ex, c, a: TakeIt(into_iter(ex, a[0]), ex.concretize(a[1]))
    M['<_ as Iterator>::skip'] = lambda ex, c, a: SkipIt(into_iter(ex, a[0]), ex.concretize(a[1]))

    def m_peek(ex, c, a):
        it = deref(a[0])
        if it.peeked is None:
            it.peeked = [it_next(ex, it.inner)]
        if it.peeked[0] is END:
            return none()
        return some(Ref(it.peeked, 0, False))
    M['Peekable::peek'] = m_peek

    def m_fold(ex, c, a):
        acc = a[1]
        it = into_iter(ex, a[0])
        while True:
            v = it_next(ex, it)
            if v is END:
                return acc
            acc = ex.call_value(a[2], [acc, v])
    M['<_ as Iterator>::fold'] = m_fold

    def m_for_each(ex, c, a):
        it = into_iter(ex, a[0])
        while True:
            v = it_next(ex, it)
            if v is END:
                return unit()
            ex.call_value(a[1], [v])
    M['<_ as Iterator>::for_each'] = m_for_each

    def m_count(ex, c, a):
        return Int('usize', len(drain_all(ex, into_iter(ex, a[0]))))
    M['<_ as Iterator>::count'] = m_count

    def m_last(ex, c, a):
        xs = drain_all(ex, into_iter(ex, a[0]))
        return some(xs[-1]) if xs else none()
    M['<_ as Iterator>::last'] = m_last

    def m_nth(ex, c, a):
        n = ex.concretize(a[1])
        it = a[0]
        v = END
        for _ in range(n + 1):
            v = it_next(ex, it)
            if v is END:
                return none()
        return some(v)
    M['<_ as Iterator>::nth'] = m_nth

    def m_any(ex, c, a):
        it = a[0]
        while True:
            v = it_next(ex, it)
            if v is END:
                return False
            if ex.branch(ex.call_value(a[1], [v]), 'any'):
                return True
    M['<_ as Iterator>::any'] = m_any

    def m_all(ex, c, a):
        it = a[0]
        while True:
            v = it_next(ex, it)
            if v is END:
                return True
            if not ex.branch(ex.call_value(a[1], [v]), 'all'):
                return False
    M['<_ as Iterator>::all'] = m_all

    def m_find(ex, c, a):
        it = a[0]
        while True:
            v = it_next(ex, it)
            if v is END:
                return none()
            h = [v]
            if ex.branch(ex.call_value(a[1], [Ref(h, 0, False)]), 'find'):
                return some(h[0])
    M['<_ as Iterator>::find'] = m_find

    def m_find_map(ex, c, a):
        it = a[0]
        while True:
            v = it_next(ex, it)
            if v is END:
                return none()
            o = ex.call_value(a[1], [v])
            if o.variant == 'Some':
                return o
    M['<_ as Iterator>::find_map'] = m_find_map

    def m_position(ex, c, a):
        it = a[0]
        i = 0
        while True:
            v = it_next(ex, it)
            if v is END:
                return none()
            if ex.branch(ex.call_value(a[1], [v]), 'position'):
                return some(Int('usize', i))
            i += 1
    M['<_ as Iterator>::position'] = m_position

    def m_sum(ex, c, a):
        xs = drain_all(ex, into_iter(ex, a[0]))
        ty = generic_arg(c.mgenerics)
        acc = Int(ty, 0) if ty in INT_BITS else None
        for x in xs:
            x = deref(x)
            if acc is None:
                acc = x
            else:
                r = ex.binop('AddWithOverflow', acc, x)
                if ex.branch(r.fields[1], 'sum overflow'):
                    _panic('attempt to add with overflow')
                acc = r.fields[0]
        if acc is None:
            raise Unsupported('sum of unknown type')
        return acc
    M['<_ as Iterator>::sum'] = m_sum

    def m_minmax(is_max, keyed=False, by=False):
        def f(ex, c, a):
            xs = drain_all(ex, into_iter(ex, a[0]))
            if not xs:
                return none()
            best = xs[0]
            bk = ex.call_value(a[1], [Ref([best], 0, False)]) if keyed else best
            for x in xs[1:]:
                if by:
                    k = ex.call_value(a[1], [Ref([best], 0, False), Ref([x], 0, False)]).idx
                    xk = x
                else:
                    xk = ex.call_value(a[1], [Ref([x], 0, False)]) if keyed else x
                    k = values_cmp(ex, bk, xk)
                # max: last max wins (>=); min: first min wins (<)
                if (is_max and k <= 0) or (not is_max and k > 0):
                    best, bk = x, xk
            return some(best)
        return f
    M['<_ as Iterator>::max'] = m_minmax(True)
    M['<_ as Iterator>::min'] = m_minmax(False)
    M['<_ as Iterator>::max_by_key'] = m_minmax(True, keyed=True)
    M['<_ as Iterator>::min_by_key'] = m_minmax(False, keyed=True)
    M['<_ as Iterator>::max_by'] = m_minmax(True, by=True)
    M['<_ as Iterator>::min_by'] = m_minmax(False, by=True)

    def m_collect(ex, c, a):
        xs = drain_all(ex, into_iter(ex, a[0]))
        ty = generic_arg(c.mgenerics) or ''
        return collect_into(ex, ty, xs)
    M['<_ as Iterator>::collect'] = m_collect

    def collect_into(ex, ty, xs):
        from .srcinfo import type_base
        from .models_coll import VecModel, MapModel, DequeModel
        b = type_base(ty) if ty else 'Vec'
        if b == 'Vec':
            return VecModel(xs)
        if b == 'VecDeque':
            return DequeModel(xs)
        if b in ('HashMap', 'IndexMap', 'BTreeMap'):
            m = MapModel(b)
            for kv in xs:
                m.insert(ex, kv.fields[0], kv.fields[1])
            return m
        if b in ('HashSet', 'IndexSet', 'BTreeSet'):
            m = MapModel(b)
            for k in xs:
                m.insert(ex, k, unit())
            return m
        f = ex.find_impl('FromIterator', b, 'from_iter')
        if f is not None:
            return ex.call_function(f, [ListIter(xs)])
        raise Unsupported('collect into ' + ty)
    w.collect_into = collect_into

    def m_extend(ex, c, a):
        tgt = deref(a[0])
        xs = drain_all(ex, into_iter(ex, a[1]))
        if hasattr(tgt, 'extend_model'):
            tgt.extend_model(ex, xs)
            return unit()
        raise Unsupported('extend on %r' % (tgt,))
    M['<_ as Extend>::extend'] = m_extend

    def m_size_hint(ex, c, a):
        it = deref(a[0])
        if isinstance(it, ListIter):
            n = Int('usize', it.remaining())
            return Agg('tuple', None, [n, some(n)])
        return Agg('tuple', None, [Int('usize', 0), none()])
    M['<_ as Iterator>::size_hint'] = m_size_hint

    def m_len(ex, c, a):
        it = deref(a[0])
        if isinstance(it, ListIter):
            return Int('usize', it.remaining())
        raise Unsupported('ExactSizeIterator::len on %r' % (it,))
    M['<_ as ExactSizeIterator>::len'] = m_len

    class FromFnIt(IterModel):
        def __init__(self, f):
            self.f = f

        def it_next(self, ex):
            o = ex.call_value(self.f, [])
            return o.fields[0] if o.variant == 'Some' else END
    M['iter::from_fn'] = lambda ex, c, a: FromFnIt(a[0])
    M['from_fn'] = M['iter::from_fn']

    def m_from_iter(ex, c, a):
        ty = c.selfty
        g = ex.env.get('generics', {})
        ty = g.get(ty, ty)
        return collect_into(ex, ty, drain_all(ex, into_iter(ex, a[0])))
    M['<_ as FromIterator>::from_iter'] = m_from_iter
    M['iter::once'] = lambda ex, c, a: ListIter([a[0]])
    M['iter::empty'] = lambda ex, c, a: ListIter([])

    def m_repeat_n(ex, c, a):
        n = ex.concretize(a[1])
        return ListIter([deep_copy(a[0]) for _ in range(n)])
    M['iter::repeat_n'] = m_repeat_n
