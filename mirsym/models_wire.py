"""bincode + byte buffers for the network framing (remote_send / remote_recv).

A byte buffer is a list of *chunks*; a chunk is (kind, value, length) where `length` may be symbolic.
bincode is an injective pair: serialize appends a chunk carrying the value, deserialize of exactly that chunk
returns it.  The fixed-int header encoding has the length of its integer fields; the message encoding has an
uninterpreted (symbolic) length that is the same for `serialized_size` and `serialize_into` of the same value."""
import z3

from .values import Int, Agg, Enum, Ref, SliceRef, Opaque, INT_BITS, mk_int, unit, deep_copy
from .models import deref, ok, err, generic_arg


class Chunk:
    def __init__(self, kind, value, length):
        self.kind, self.value, self.length = kind, value, length

    def __repr__(self):
        return '<%s %r len=%r>' % (self.kind, self.value, self.length)


class ByteBuf:
    model_name = 'Vec'

    def __init__(self, chunks=None):
        self.chunks = list(chunks or [])

    @property
    def items(self):           # so that generic code does not mistake it for an element list
        raise AttributeError('ByteBuf has no element list')

    def total(self, ex):
        acc = Int('usize', 0)
        for c in self.chunks:
            acc = ex.binop('Add', acc, c.length)
        return acc

    def deref_model(self, ex, r):
        return r

    def clone_model(self, ex=None):
        return ByteBuf(self.chunks)

    def __repr__(self):
        return 'Bytes%r' % (self.chunks,)


def fixint_len(v):
    v = deref(v)
    if isinstance(v, Int):
        return INT_BITS[v.ty] // 8
    if isinstance(v, (Agg, Enum)):
        return sum(fixint_len(f) for f in v.fields)
    from .executor import Unsupported
    raise Unsupported('fixint length of %r' % (v,))


def install(w):
    from .executor import Unsupported
    M = w.models
    M['<Lazy as Deref>::deref'] = lambda ex, c, a: a[0]

    def is_fixint(c):
        return 'FixintEncoding' in (c.selfty or '')

    def msg_len(ex, val):
        key = id(val)
        tab = ex.env.setdefault('wire_len', {})
        if key not in tab:
            L = ex.fresh_int('u64', 'serialized_len')
            ex.assume(z3.ULT(L.v, z3.BitVecVal(1 << 32, 64)))     # larger messages: the sender panics (u32 size field)
            tab[key] = (val, L)        # keep `val` alive so that ids stay unique
        return tab[key][1]

    def serialized_size(ex, c, a):
        v = deref(a[1])
        if is_fixint(c):
            return ok(Int('u64', fixint_len(v)))
        return ok(msg_len(ex, v))
    M['<_ as Options>::serialized_size'] = serialized_size

    def serialize_into(ex, c, a):
        buf = deref(a[1])
        v = deref(a[2])
        if not isinstance(buf, ByteBuf):
            raise Unsupported('serialize_into %r' % (buf,))
        if is_fixint(c):
            buf.chunks.append(Chunk('fixint', deep_copy(v), Int('usize', fixint_len(v))))
        else:
            buf.chunks.append(Chunk('bincode', v, ex.cast(msg_len(ex, v), 'usize', 'IntToInt')))
        return ok(unit())
    M['<_ as Options>::serialize_into'] = serialize_into

    def deserialize(ex, c, a):
        src = a[1]
        if isinstance(src, SliceRef):
            tag = ex.env.get('wire_arrays', {}).get(id(src.items))
        else:
            b = deref(src)
            tag = b.chunks[0] if isinstance(b, ByteBuf) and len(b.chunks) == 1 else None
        if tag is None or tag.kind not in ('fixint', 'bincode'):
            return err(Opaque('bincode::Error'))
        if (tag.kind == 'fixint') != is_fixint(c):
            return err(Opaque('bincode::Error'))
        return ok(deep_copy(tag.value))
    M['<_ as Options>::deserialize'] = deserialize

    # Vec<u8> as byte buffer
    old_with_capacity = M['Vec::with_capacity']

    def vec_with_capacity(ex, c, a):
        if generic_arg(c.tgenerics) == 'u8':
            return ByteBuf()
        return old_with_capacity(ex, c, a)
    M['Vec::with_capacity'] = vec_with_capacity

    old_len = M['Vec::len']

    def vec_len(ex, c, a):
        b = deref(a[0])
        if isinstance(b, ByteBuf):
            return b.total(ex)
        return old_len(ex, c, a)
    M['Vec::len'] = vec_len

    for key in ('<Vec as AsRef>::as_ref', '<Vec as DerefMut>::deref_mut', '<Vec as Deref>::deref'):
        old = M[key]
        M[key] = (lambda old: lambda ex, c, a: a[0] if isinstance(deref(a[0]), ByteBuf) else old(ex, c, a))(old)

    old_from_elem = M['from_elem']

    def from_elem(ex, c, a):
        if isinstance(a[0], Int) and a[0].ty == 'u8' and not a[1].concrete:
            return ByteBuf([Chunk('zeros', None, a[1])])
        return old_from_elem(ex, c, a)
    M['from_elem'] = from_elem
    M['vec::from_elem'] = from_elem
