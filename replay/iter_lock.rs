// target: src/operator/iteration/mod.rs
// Native replay of IterationStateLock (C10): kind `state_lock`.
// args = [op, generation, wanted]: the lock is built with `generation`; op 0 = lock(), 1 = unlock(),
// 2 = wait_for_update(wanted) on a worker thread (watchdog 2 s).
// Output: `G<generation afterwards>` for lock / unlock (a failed assertion propagates: PANIC),
// `RETURNED` / `BLOCKED` for wait_for_update.
#![allow(dead_code, unused_imports)]
use super::*;
use std::sync::{mpsc, Arc, Condvar, Mutex};
use std::time::Duration;

#[no_mangle]
pub fn verif_replay_iter_lock(name: &str, a: &[i128]) -> Option<String> {
    if name != "state_lock" {
        return None;
    }
    if a.len() != 3 || a[0] < 0 || a[0] > 2 || a[1] < 0 || a[2] < 0 {
        return Some("BADARGS state_lock expects [op(0..2), generation, wanted]".into());
    }
    let lock = Arc::new(IterationStateLock {
        generation: Mutex::new(a[1] as usize),
        cond_var: Condvar::new(),
    });
    match a[0] {
        0 => {
            lock.lock();
            Some(format!("G{}", *lock.generation.lock().unwrap()))
        }
        1 => {
            lock.unlock();
            Some(format!("G{}", *lock.generation.lock().unwrap()))
        }
        _ => {
            let (tx, rx) = mpsc::channel::<()>();
            let l2 = lock.clone();
            let want = a[2] as usize;
            std::thread::spawn(move || {
                l2.wait_for_update(want);
                let _ = tx.send(());
            });
            Some(match rx.recv_timeout(Duration::from_millis(2000)) {
                Ok(()) => "RETURNED".into(),
                Err(_) => "BLOCKED".into(),
            })
        }
    }
}
