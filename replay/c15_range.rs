// target: src/operator/source/parallel_iterator.rs
// Native replay entry points for the range-splitting kernels (C15).
use super::*;

fn fmt_range<T: std::fmt::Debug>(r: std::ops::Range<T>) -> String {
    format!("{:?}..{:?}", r.start, r.end)
}

#[no_mangle]
pub fn verif_replay_c15_range(name: &str, a: &[i128]) -> Option<String> {
    // args: start, end, index, peers
    macro_rules! go {
        ($t:ty) => {{
            let r: std::ops::Range<$t> = (a[0] as $t)..(a[1] as $t);
            Some(fmt_range(r.generate_iterator(a[2] as u64, a[3] as u64)))
        }};
    }
    match name {
        "range_u8" => go!(u8),
        "range_u16" => go!(u16),
        "range_u32" => go!(u32),
        "range_u64" => go!(u64),
        "range_usize" => go!(usize),
        "range_i8" => go!(i8),
        "range_i16" => go!(i16),
        "range_i32" => go!(i32),
        "range_i64" => go!(i64),
        "range_isize" => go!(isize),
        _ => None,
    }
}
