// target: src/operator/window/mod.rs
// Native replay drivers for the keyed WindowOperator (see replay/SPEC.md): winop_count,
// winop_event_time. Lives in operator::window because KeyedWindowManager has private fields;
// the shared script/format helpers come from replay/ops.rs (module operator::verif_replay_ops).
#![allow(dead_code, unused_imports, unused_variables, clippy::all)]

use std::collections::HashMap;
use std::marker::PhantomData;

use super::{
    CountWindow, EventTimeWindow, KeyedWindowManager, WindowDescription, WindowManager,
    WindowOperator,
};
use crate::operator::verif_replay_ops::{drive, parse, ScriptOp, VecAcc};
use crate::operator::StreamElement;

fn run_winop<W>(init: W, script: Vec<StreamElement<(u64, u64)>>) -> String
where
    W: WindowManager<In = u64, Out = Vec<u64>> + Send,
{
    let n = script.len();
    let manager: KeyedWindowManager<u64, u64, Vec<u64>, W> = KeyedWindowManager {
        windows: HashMap::default(),
        init,
        _in: PhantomData,
        _out: PhantomData,
    };
    let op = WindowOperator::new(ScriptOp::new(script), "VerifWindow".to_string(), manager);
    drive(op, n)
}

fn run(name: &str, args: &[i128]) -> Result<Option<String>, String> {
    Ok(Some(match name {
        "winop_count" => {
            let p = parse(args, 3)?;
            let descr = CountWindow::new(p.params[0] as usize, p.params[1] as usize, p.params[2] != 0);
            let init = <CountWindow as WindowDescription<u64>>::build(&descr, VecAcc::default());
            run_winop(init, p.script)
        }
        "winop_event_time" => {
            let p = parse(args, 2)?;
            let descr = EventTimeWindow::sliding(p.params[0] as i64, p.params[1] as i64);
            let init = <EventTimeWindow as WindowDescription<u64>>::build(&descr, VecAcc::default());
            run_winop(init, p.script)
        }
        _ => return Ok(None),
    }))
}

#[no_mangle]
pub fn verif_replay_ops_winop(name: &str, args: &[i128]) -> Option<String> {
    match run(name, args) {
        Ok(r) => r,
        Err(e) => Some(e),
    }
}
