// target: src/operator/flat_map.rs
// Native replay driver for the FlatMap operator (see replay/SPEC.md, sixth batch): kind `flat_map`.
//
// args: [n, fanout_1 .. fanout_n, element*]   (unkeyed u64 payloads, the usual element tags)
//       one fanout (0..=2) per Item/Timestamped element of the script, in script order; n must be
//       the number of Item/Timestamped elements (BADARGS otherwise).
// `FlatMap::new(ScriptOp<u64>, f)` where the j-th call of `f(x)` returns
// `(0..fanout_j).map(|i| x * 10 + i).collect::<Vec<u64>>()` (wrapping arithmetic; `f` has to be
// `Fn + Clone + Send`, so the call counter is a shared atomic; a call beyond the scripted fanouts,
// which the real operator never makes, returns the empty Vec). Polled until Terminate (budget
// 8*len(script)+8 calls, then OVERRUN). Output: I(v) T(v@ts) W(ts) B F E.
#![allow(dead_code, unused_imports, unused_variables, clippy::all)]

use std::sync::atomic::{AtomicUsize, Ordering};
use std::sync::Arc;

use super::*;
use crate::operator::verif_replay_ops::{drive, parse, ScriptOp};

fn run(args: &[i128]) -> Result<String, String> {
    if args.is_empty() || args[0] < 0 {
        return Err("BADARGS flat_map expects [n, fanout*n, element*]".into());
    }
    let p = parse(args, args[0] as usize)?;
    let mut fanouts: Vec<u64> = Vec::new();
    for &f in &p.params {
        if !(0..=2).contains(&f) {
            return Err(format!("BADARGS flat_map fanout {}", f));
        }
        fanouts.push(f as u64);
    }
    let script = p.unkeyed();
    let nitems = script
        .iter()
        .filter(|e| matches!(e, StreamElement::Item(_) | StreamElement::Timestamped(_, _)))
        .count();
    if nitems != fanouts.len() {
        return Err(format!(
            "BADARGS flat_map {} fanouts for {} items",
            fanouts.len(),
            nitems
        ));
    }
    let n = script.len();

    let fanouts = Arc::new(fanouts);
    let calls = Arc::new(AtomicUsize::new(0));
    let f = move |x: u64| -> Vec<u64> {
        let j = calls.fetch_add(1, Ordering::SeqCst);
        let fanout = fanouts.get(j).copied().unwrap_or(0);
        (0..fanout)
            .map(|i| x.wrapping_mul(10).wrapping_add(i))
            .collect::<Vec<u64>>()
    };
    let op = FlatMap::new(ScriptOp::new(script), f);
    Ok(drive(op, n))
}

#[no_mangle]
pub fn verif_replay_ops_flatmap(name: &str, args: &[i128]) -> Option<String> {
    if name != "flat_map" {
        return None;
    }
    Some(match run(args) {
        Ok(s) => s,
        Err(e) => e,
    })
}
