// target: src/operator/start/mod.rs
// Native replay driver for WatermarkFrontier (see replay/SPEC.md): kind `frontier`.
// Lives in operator::start because the struct is pub(super) in operator::start::watermark_frontier.
//
// args: [1, n, (op, replica, ts)*]   (the usual nparams prefix, one param `n`)
//   or  [n, (op, replica, ts)*]      (accepted too; the two forms differ in length modulo 3)
// op 0 = update(Coord{block 0, host 0, replica}, ts) -> prints S(ts) / N;  op 1 = reset() -> prints R
// The frontier is created over replicas 0..n.
#![allow(dead_code, unused_imports, unused_variables, clippy::all)]

use super::watermark_frontier::WatermarkFrontier;
use crate::network::Coord;

fn run(args: &[i128]) -> String {
    let rest: &[i128] = if args.len() % 3 == 2 && args[0] == 1 {
        &args[1..]
    } else if args.len() % 3 == 1 {
        args
    } else {
        return "BADARGS frontier expects [1, n, (op, replica, ts)*]".into();
    };
    let n = rest[0];
    if n < 0 {
        return "BADARGS n < 0".into();
    }
    let mut wf = WatermarkFrontier::new((0..n as u64).map(|r| Coord::new(0, 0, r)));
    let mut out = Vec::new();
    for t in rest[1..].chunks(3) {
        match t[0] {
            0 => match wf.update(Coord::new(0, 0, t[1] as u64), t[2] as i64) {
                Some(ts) => out.push(format!("S({})", ts)),
                None => out.push("N".to_string()),
            },
            1 => {
                wf.reset();
                out.push("R".to_string());
            }
            op => return format!("BADARGS frontier op {}", op),
        }
    }
    out.join(" ")
}

#[no_mangle]
pub fn verif_replay_ops_frontier(name: &str, args: &[i128]) -> Option<String> {
    match name {
        "frontier" => Some(run(args)),
        _ => None,
    }
}
