// target: src/network/topology.rs
// Native replay driver for the network topology (see replay/SPEC.md, fourth batch): kind
// `topology_build`, plus the `pub(crate)` dump of the private `next` map used by sched.rs (`graph`).
//
// topology_build: args = [nhosts, nlinks, (fb, fh, fr, tb, th, tr) * nlinks, base_port_0 .. base_port_(nhosts-1)]
//       NetworkTopology::new(remote config, host_id 0): host i has address "h<i>", the given base port,
//       1 core (RuntimeConfig::verif_remote in cfg.rs). `connect(from, to, TypeId::of::<u64>(), false)`
//       for every link in the given order, `build()`, then the private `demultiplexer_addresses` as
//       `tb.th<fb=port` (DemuxCoord: coord.block_id . coord.host_id < prev_block_id), sorted by
//       DemuxCoord (numerically: block, host, prev block), space separated.
//       A link that names a host >= nhosts makes the real `build()` index out of bounds -> PANIC;
//       a port computation that overflows u16 panics in dev and wraps in release (real behaviour).
#![allow(dead_code, unused_imports, unused_variables, clippy::all)]

use super::*;

impl NetworkTopology {
    /// Every link of the private `next` map as (from, to, fragile), sorted.
    pub(crate) fn verif_links(&self) -> Vec<(Coord, Coord, bool)> {
        let mut v = Vec::new();
        for (&(from, _typ), tos) in self.next.iter() {
            for &(to, fragile) in tos.iter() {
                v.push((from, to, fragile));
            }
        }
        v.sort();
        v
    }

    /// The private `demultiplexer_addresses` map as (coord, address, port), sorted by coord.
    pub(crate) fn verif_demux_addresses(&self) -> Vec<(DemuxCoord, String, u16)> {
        let mut v: Vec<_> = self
            .demultiplexer_addresses
            .iter()
            .map(|(c, (a, p))| (*c, a.clone(), *p))
            .collect();
        v.sort();
        v
    }
}

fn coord_u(x: i128, what: &str) -> Result<u64, String> {
    if x < 0 || x > u64::MAX as i128 {
        Err(format!("BADARGS topology_build {} out of range: {}", what, x))
    } else {
        Ok(x as u64)
    }
}

fn topology_build(args: &[i128]) -> Result<String, String> {
    if args.len() < 2 || args[0] < 0 || args[1] < 0 {
        return Err("BADARGS topology_build expects nhosts, nlinks, ..".into());
    }
    if args[0] > 1 << 20 || args[1] > 1 << 20 {
        return Err("BADARGS topology_build nhosts/nlinks too large".into());
    }
    let nhosts = args[0] as usize;
    let nlinks = args[1] as usize;
    if args.len() != 2 + 6 * nlinks + nhosts {
        return Err(format!(
            "BADARGS topology_build expects {} arguments, got {}",
            2 + 6 * nlinks + nhosts,
            args.len()
        ));
    }
    let mut links = Vec::new();
    for l in 0..nlinks {
        let a = &args[2 + 6 * l..2 + 6 * l + 6];
        let from = Coord::new(
            coord_u(a[0], "from block")?,
            coord_u(a[1], "from host")?,
            coord_u(a[2], "from replica")?,
        );
        let to = Coord::new(
            coord_u(a[3], "to block")?,
            coord_u(a[4], "to host")?,
            coord_u(a[5], "to replica")?,
        );
        links.push((from, to));
    }
    let mut hosts = Vec::new();
    for &p in &args[2 + 6 * nlinks..] {
        if p < 0 || p > u16::MAX as i128 {
            return Err(format!("BADARGS topology_build base port out of range: {}", p));
        }
        hosts.push((1u64, p as u16));
    }

    let mut topology = NetworkTopology::new(RuntimeConfig::verif_remote(&hosts, 0));
    for (from, to) in links {
        topology.connect(from, to, TypeId::of::<u64>(), false);
    }
    topology.build();

    let toks: Vec<String> = topology
        .verif_demux_addresses()
        .into_iter()
        .map(|(c, _addr, port)| {
            format!(
                "{}.{}<{}={}",
                c.coord.block_id, c.coord.host_id, c.prev_block_id, port
            )
        })
        .collect();
    Ok(toks.join(" "))
}

#[no_mangle]
pub fn verif_replay_topo(name: &str, args: &[i128]) -> Option<String> {
    match name {
        "topology_build" => Some(match topology_build(args) {
            Ok(s) => s,
            Err(e) => e,
        }),
        _ => None,
    }
}
