// target: src/operator/source/file.rs
// Native replay driver for FileSource (see replay/SPEC.md, second batch): kind `file_source`.
//
// args: [replicas, nbytes, b0 .. b(nbytes-1)]          (no nparams prefix)
// The bytes are written to a temp file (temp_dir()/verif_replay_file_<pid>_<n>, removed afterwards,
// also when the source panics). For every global_id in 0..replicas a fresh FileSource::new(path) is
// set up with ExecutionMetadata{coord: Coord(0,0,id), replicas: [Coord(0,0,0) .. Coord(0,0,replicas-1)],
// global_id: id, ..} and polled until Terminate (at most nbytes + 8 calls, then OVERRUN).
// Output: per replica the emitted Items as byte lists `[b,b,..]`, replicas separated by ` | `.
// FlushAndRestart / Terminate are not printed; anything else (never produced by FileSource) is
// printed with the usual token format so that it cannot go unnoticed.
#![allow(dead_code, unused_imports, unused_variables, clippy::all)]

use std::io::Write;
use std::path::PathBuf;
use std::sync::atomic::{AtomicUsize, Ordering};

use super::*;
use crate::network::NetworkTopology;
use crate::{BatchMode, RuntimeConfig};

static COUNTER: AtomicUsize = AtomicUsize::new(0);

struct TempFile(PathBuf);

impl Drop for TempFile {
    fn drop(&mut self) {
        let _ = std::fs::remove_file(&self.0);
    }
}

fn run(args: &[i128]) -> String {
    if args.len() < 2 || args[0] < 0 || args[1] < 0 {
        return "BADARGS file_source expects [replicas, nbytes, bytes*]".into();
    }
    let replicas = args[0] as u64;
    let nbytes = args[1] as usize;
    if args.len() != 2 + nbytes {
        return format!("BADARGS file_source nbytes={} but {} bytes given", nbytes, args.len() - 2);
    }
    let mut bytes = Vec::with_capacity(nbytes);
    for &b in &args[2..] {
        if !(0..=255).contains(&b) {
            return format!("BADARGS file_source byte {}", b);
        }
        bytes.push(b as u8);
    }

    let path = std::env::temp_dir().join(format!(
        "verif_replay_file_{}_{}",
        std::process::id(),
        COUNTER.fetch_add(1, Ordering::SeqCst)
    ));
    let guard = TempFile(path.clone());
    {
        let mut f = std::fs::File::create(&path).expect("verif: cannot create temp file");
        f.write_all(&bytes).expect("verif: cannot write temp file");
        f.sync_all().ok();
    }

    let mut topology = NetworkTopology::new(RuntimeConfig::local(1).unwrap());
    let coords: Vec<Coord> = (0..replicas).map(|r| Coord::new(0, 0, r)).collect();
    let budget = nbytes + 8;

    let mut sections = Vec::new();
    for id in 0..replicas {
        let mut src = FileSource::new(path.clone());
        {
            let mut metadata = ExecutionMetadata {
                coord: coords[id as usize],
                replicas: coords.clone(),
                global_id: id,
                prev: vec![],
                network: &mut topology,
                batch_mode: BatchMode::fixed(1024),
            };
            src.setup(&mut metadata);
        }
        let mut toks = Vec::new();
        let mut ended = false;
        for _ in 0..budget {
            match src.next() {
                StreamElement::Item(line) => {
                    let v: Vec<String> = line.as_bytes().iter().map(|b| b.to_string()).collect();
                    toks.push(format!("[{}]", v.join(",")));
                }
                StreamElement::FlushAndRestart => {}
                StreamElement::Terminate => {
                    ended = true;
                    break;
                }
                StreamElement::Timestamped(line, ts) => toks.push(format!("T({:?}@{})", line, ts)),
                StreamElement::Watermark(ts) => toks.push(format!("W({})", ts)),
                StreamElement::FlushBatch => toks.push("B".into()),
            }
        }
        if !ended {
            toks.push("OVERRUN".into());
        }
        sections.push(toks.join(" "));
    }
    drop(guard);
    sections.join(" | ")
}

#[no_mangle]
pub fn verif_replay_src_file(name: &str, args: &[i128]) -> Option<String> {
    match name {
        "file_source" => Some(run(args)),
        _ => None,
    }
}
