// target: src/lib.rs
// Native replay drivers at pipeline level (see replay/SPEC.md, sixth batch, "Pipeline-level"):
// kinds `pipe_merge`, `pipe_route`, `pipe_split`, `pipe_agg`, `pipe_replay`, `pipe_iterate`.
//
// Only the public API of the crate is used. Every kind builds
// `StreamContext::new(RuntimeConfig::local(par))`, registers the job, runs `execute_blocking()` and
// prints the collected results SORTED (ascending), so the text does not depend on the schedule
// (as far as the job itself is schedule independent, see the note on replay/iterate). An empty list
// prints `-`. All the values are `u64` (arguments outside 0..=u64::MAX are BADARGS).
//
//   pipe_merge    [par, nl, l*, nr, r*]               -> `v v v`
//   pipe_route    [par, nroutes(1..=4), n, (x, mask)*] -> `R0: x x | R1: x | ..`
//                 items are `(x, mask): (u64, u64)`; route r is the plain fn
//                 `|&(_, mask)| mask >> r & 1 == 1`; routes are added in the order 0, 1, ..
//                 (the first matching route wins, unmatched items are dropped); only `x` is printed.
//   pipe_split    [par, nsplits(1..=4), n, x*]         -> `S0: x x | S1: ..`
//   pipe_agg      [nparts, builder, op, n, (v, part)*, delay_ms * nparts] -> the collected values (`k:v` when keyed)
//                 parallelism = nparts; source = `stream_par_iter(move |id, _n| parts[id].clone().into_iter())`
//                 where `parts[p]` holds (in argument order) the values `v_j` with `part_j == p`.
//                 op: 0 wrapping add, 1 min, 2 max on u64: `f(a, b) -> u64`; `f'(acc, b) = *acc = f(*acc, b)`.
//                 Item type is `u64` for every builder; key type `u8` (always 0). Value types:
//                   0 reduce_assoc(f)                                   Out = u64           `v`
//                   1 group_by_reduce(|_| 0u8, f')                      Out = (u8, u64)     `0:v`
//                   2 group_by_sum(|_| 0u8, |x| x as u128)              V = u128 (ExchangeData + AddAssign,
//                        cannot overflow, so dev and release agree for any u64 inputs); op ignored  `0:sum`
//                   3 group_by_count(|_| 0u8)                           Out = (u8, usize); op ignored `0:n`
//                   4 group_by_avg(|_| 0u8, |x| *x as f64)              V = f64 (AddAssign + Div<f64>);
//                        op ignored; printed `0:{:.6}` (exact while the partial sums stay below 2^53)
//                   5 group_by_min_element(|_| 0u8, |x| *x)             V = u64 (Ord); prints the element `0:x`
//                   6 group_by_max_element(|_| 0u8, |x| *x)             same
//                   7 fold_assoc(0u64, f', f')                          O = u64, init 0     `v`
//                 (with init 0, op = min always yields 0 for builder 7 - that is what the job computes).
//   pipe_replay   [par, rounds, n, x*]                 -> final state(s): `value`
//   pipe_iterate  [par, rounds, n, x*]                 -> `value || out out out`
//                 state `(round: u64, value: u64)`, initially (0, 0); `num_iterations = rounds + 5`;
//                 `stream_iter(xs).shuffle().replay/iterate(..)` with
//                   replay body   `s.map(move |x| x.wrapping_mul(31).wrapping_add(state.get().1))`
//                   iterate body  `s.map(move |x| x.wrapping_add(state.get().1).wrapping_add(1))`
//                   local fold    `*d = d.wrapping_add(x)`                  (delta: u64, Default = 0)
//                   global fold   `st.1 = st.1.wrapping_add(d)`
//                   condition     `st.0 += 1; st.0 < rounds`
//                 NOTE: the engine applies the global fold once per *replica* delta (par deltas per
//                 round, in arrival order) and `shuffle()` distributes the items randomly, so with
//                 par > 1 the final value legitimately depends on the schedule (the fold above is not
//                 commutative); with par = 1 it is deterministic.
//
// Watchdog: the job (build + execute_blocking + formatting) runs on a worker thread; the calling
// thread waits at most 20 s (env VERIF_REPLAY_WATCHDOG_MS overrides) and prints `TIMEOUT` when the
// deadline expires. A panic of the job thread is propagated with `resume_unwind` (the driver prints
// PANIC). A panic on one of the engine's own worker threads normally reaches the job thread through
// `handle.join().unwrap()` inside `execute_blocking`; if the job is stuck instead (another block
// waits forever for the dead one), the panic hook's flag turns the wait into a panic after a grace
// period of 2 s, so it is reported as PANIC and not as TIMEOUT. The panic hook is replaced by a
// one-line message (symbolizing a backtrace can be slow on a loaded machine).
#![allow(dead_code, unused_imports, unused_variables, clippy::all)]

use std::sync::atomic::{AtomicBool, Ordering};
use std::sync::mpsc;
use std::time::{Duration, Instant};

use crate::prelude::*;
use crate::{RuntimeConfig, StreamContext};

const JOB_THREAD: &str = "verif-pipe";
/// Set by the panic hook as soon as any thread of the process starts panicking.
static PANICKING: AtomicBool = AtomicBool::new(false);

const MAX_PAR: i128 = 16;
const MAX_ITEMS: i128 = 100_000;

// ------------------------------------------------------------------------------------ helpers

fn to_u64(kind: &str, what: &str, v: i128) -> Result<u64, String> {
    if v < 0 || v > u64::MAX as i128 {
        return Err(format!("BADARGS {}: {} {} is not a u64", kind, what, v));
    }
    Ok(v as u64)
}

/// Cursor over the argument list.
struct Args<'a> {
    kind: &'a str,
    args: &'a [i128],
    pos: usize,
}

impl<'a> Args<'a> {
    fn new(kind: &'a str, args: &'a [i128]) -> Self {
        Args { kind, args, pos: 0 }
    }

    fn next(&mut self, what: &str) -> Result<i128, String> {
        match self.args.get(self.pos) {
            Some(v) => {
                self.pos += 1;
                Ok(*v)
            }
            None => Err(format!(
                "BADARGS {}: truncated, missing {} at {}",
                self.kind, what, self.pos
            )),
        }
    }

    fn ranged(&mut self, what: &str, lo: i128, hi: i128) -> Result<i128, String> {
        let v = self.next(what)?;
        if v < lo || v > hi {
            return Err(format!(
                "BADARGS {}: {} = {} not in {}..={}",
                self.kind, what, v, lo, hi
            ));
        }
        Ok(v)
    }

    fn u64(&mut self, what: &str) -> Result<u64, String> {
        let v = self.next(what)?;
        to_u64(self.kind, what, v)
    }

    fn u64_list(&mut self, n: usize, what: &str) -> Result<Vec<u64>, String> {
        let mut out = Vec::with_capacity(n);
        for _ in 0..n {
            out.push(self.u64(what)?);
        }
        Ok(out)
    }

    fn end(&self) -> Result<(), String> {
        if self.pos != self.args.len() {
            return Err(format!(
                "BADARGS {}: {} trailing values",
                self.kind,
                self.args.len() - self.pos
            ));
        }
        Ok(())
    }
}

fn fmt_list<T: std::fmt::Display>(v: &[T]) -> String {
    if v.is_empty() {
        "-".to_string()
    } else {
        v.iter()
            .map(|x| x.to_string())
            .collect::<Vec<_>>()
            .join(" ")
    }
}

fn sorted(v: Option<Vec<u64>>) -> Result<Vec<u64>, String> {
    match v {
        Some(mut v) => {
            v.sort_unstable();
            Ok(v)
        }
        None => Err("NOOUTPUT".to_string()),
    }
}

fn context(par: u64) -> StreamContext {
    StreamContext::new(RuntimeConfig::local(par).unwrap())
}

/// Run `job` on a worker thread under the watchdog.
fn supervised<F>(job: F) -> String
where
    F: FnOnce() -> String + Send + 'static,
{
    std::panic::set_hook(Box::new(move |info| {
        PANICKING.store(true, Ordering::SeqCst);
        eprintln!(
            "verif-pipe: panic on thread {:?}: {}",
            std::thread::current().name().unwrap_or("?"),
            info
        );
    }));
    let (tx, rx) = mpsc::channel::<String>();
    let worker = std::thread::Builder::new()
        .name(JOB_THREAD.into())
        .spawn(move || {
            let s = job();
            let _ = tx.send(s);
        })
        .unwrap();

    let watchdog_ms = std::env::var("VERIF_REPLAY_WATCHDOG_MS")
        .ok()
        .and_then(|s| s.parse::<u64>().ok())
        .unwrap_or(20_000);
    let deadline = Instant::now() + Duration::from_millis(watchdog_ms);
    let grace = Duration::from_millis(2_000);
    let mut panic_seen: Option<Instant> = None;
    loop {
        match rx.recv_timeout(Duration::from_millis(50)) {
            Ok(s) => {
                if let Err(p) = worker.join() {
                    std::panic::resume_unwind(p);
                }
                return s;
            }
            Err(mpsc::RecvTimeoutError::Disconnected) => {
                // the job thread died without a result: propagate its panic
                match worker.join() {
                    Err(p) => std::panic::resume_unwind(p),
                    Ok(()) => panic!("verif: pipe job vanished"),
                }
            }
            Err(mpsc::RecvTimeoutError::Timeout) => {
                let now = Instant::now();
                if PANICKING.load(Ordering::SeqCst) {
                    let t0 = *panic_seen.get_or_insert(now);
                    if now.duration_since(t0) >= grace || now >= deadline {
                        // a thread of the job panicked and the job did not come back: PANIC
                        panic!("verif: a thread of the pipe job panicked and the job is stuck");
                    }
                } else if now >= deadline {
                    // leave the stuck threads alone: the process exits right after the result
                    return "TIMEOUT".to_string();
                }
            }
        }
    }
}

fn par_arg(a: &mut Args) -> Result<u64, String> {
    Ok(a.ranged("par", 1, MAX_PAR)? as u64)
}

// -------------------------------------------------------------------------------------- merge

fn pipe_merge(args: &[i128]) -> Result<String, String> {
    let mut a = Args::new("pipe_merge", args);
    let par = par_arg(&mut a)?;
    let nl = a.ranged("nl", 0, MAX_ITEMS)? as usize;
    let l = a.u64_list(nl, "l")?;
    let nr = a.ranged("nr", 0, MAX_ITEMS)? as usize;
    let r = a.u64_list(nr, "r")?;
    a.end()?;
    Ok(supervised(move || {
        let env = context(par);
        let left = env.stream_iter(l.into_iter());
        let right = env.stream_iter(r.into_iter());
        let out = left.merge(right).collect_vec();
        env.execute_blocking();
        match sorted(out.get()) {
            Ok(v) => fmt_list(&v),
            Err(e) => e,
        }
    }))
}

// -------------------------------------------------------------------------------------- route

fn route_pred_0(t: &(u64, u64)) -> bool {
    t.1 >> 0 & 1 == 1
}
fn route_pred_1(t: &(u64, u64)) -> bool {
    t.1 >> 1 & 1 == 1
}
fn route_pred_2(t: &(u64, u64)) -> bool {
    t.1 >> 2 & 1 == 1
}
fn route_pred_3(t: &(u64, u64)) -> bool {
    t.1 >> 3 & 1 == 1
}
const ROUTE_PREDS: [fn(&(u64, u64)) -> bool; 4] =
    [route_pred_0, route_pred_1, route_pred_2, route_pred_3];

fn pipe_route(args: &[i128]) -> Result<String, String> {
    let mut a = Args::new("pipe_route", args);
    let par = par_arg(&mut a)?;
    let nroutes = a.ranged("nroutes", 1, 4)? as usize;
    let n = a.ranged("n", 0, MAX_ITEMS)? as usize;
    let mut items = Vec::with_capacity(n);
    for _ in 0..n {
        let x = a.u64("x")?;
        let mask = a.u64("mask")?;
        items.push((x, mask));
    }
    a.end()?;
    Ok(supervised(move || {
        let env = context(par);
        let mut builder = env.stream_iter(items.into_iter()).route();
        for r in 0..nroutes {
            builder = builder.add_route(ROUTE_PREDS[r]);
        }
        let outs: Vec<_> = builder
            .build()
            .into_iter()
            .map(|s| s.collect_vec())
            .collect();
        env.execute_blocking();
        let mut sections = Vec::new();
        for (r, out) in outs.into_iter().enumerate() {
            let body = match out.get() {
                Some(v) => {
                    let mut xs: Vec<u64> = v.into_iter().map(|t| t.0).collect();
                    xs.sort_unstable();
                    fmt_list(&xs)
                }
                None => "NOOUTPUT".to_string(),
            };
            sections.push(format!("R{}: {}", r, body));
        }
        sections.join(" | ")
    }))
}

// -------------------------------------------------------------------------------------- split

fn pipe_split(args: &[i128]) -> Result<String, String> {
    let mut a = Args::new("pipe_split", args);
    let par = par_arg(&mut a)?;
    let nsplits = a.ranged("nsplits", 1, 4)? as usize;
    let n = a.ranged("n", 0, MAX_ITEMS)? as usize;
    let xs = a.u64_list(n, "x")?;
    a.end()?;
    Ok(supervised(move || {
        let env = context(par);
        let outs: Vec<_> = env
            .stream_iter(xs.into_iter())
            .split(nsplits)
            .into_iter()
            .map(|s| s.collect_vec())
            .collect();
        env.execute_blocking();
        let mut sections = Vec::new();
        for (r, out) in outs.into_iter().enumerate() {
            let body = match sorted(out.get()) {
                Ok(v) => fmt_list(&v),
                Err(e) => e,
            };
            sections.push(format!("S{}: {}", r, body));
        }
        sections.join(" | ")
    }))
}

// ---------------------------------------------------------------------------------------- agg

fn agg_op(op: u8, a: u64, b: u64) -> u64 {
    match op {
        0 => a.wrapping_add(b),
        1 => a.min(b),
        _ => a.max(b),
    }
}

fn fmt_keyed<K, V, S>(out: Option<Vec<(K, V)>>, show: S) -> String
where
    K: Ord + std::fmt::Display,
    V: PartialOrd,
    S: Fn(&V) -> String,
{
    match out {
        None => "NOOUTPUT".to_string(),
        Some(mut v) => {
            v.sort_by(|a, b| {
                a.0.cmp(&b.0)
                    .then(a.1.partial_cmp(&b.1).unwrap_or(std::cmp::Ordering::Equal))
            });
            let toks: Vec<String> = v
                .iter()
                .map(|(k, x)| format!("{}:{}", k, show(x)))
                .collect();
            fmt_list(&toks)
        }
    }
}

fn pipe_agg(args: &[i128]) -> Result<String, String> {
    let mut a = Args::new("pipe_agg", args);
    let nparts = a.ranged("nparts", 1, MAX_PAR)? as u64;
    let builder = a.ranged("builder", 0, 7)? as u8;
    let op = a.ranged("op", 0, 2)? as u8;
    let n = a.ranged("n", 0, MAX_ITEMS)? as usize;
    let mut parts: Vec<Vec<u64>> = vec![Vec::new(); nparts as usize];
    for _ in 0..n {
        let v = a.u64("v")?;
        let p = a.ranged("part", 0, nparts as i128 - 1)? as usize;
        parts[p].push(v);
    }
    // one delay (ms) per source replica: replica `id` yields its first item `delay_id` ms after it is first polled, so
    // that the partial results reach the global fold in the order of the delays
    let mut delays: Vec<u64> = Vec::new();
    for _ in 0..nparts {
        delays.push(a.ranged("delay_ms", 0, 5000)? as u64);
    }
    a.end()?;
    Ok(supervised(move || {
        let env = context(nparts);
        let source = env.stream_par_iter(move |id: u64, _n: u64| {
            let items = parts[id as usize].clone();
            let d = delays[id as usize];
            std::iter::once(()).flat_map(move |_| {
                if d > 0 {
                    std::thread::sleep(std::time::Duration::from_millis(d));
                }
                items.clone().into_iter()
            })
        });
        let f = move |x: u64, y: u64| agg_op(op, x, y);
        let f_mut = move |acc: &mut u64, y: u64| *acc = agg_op(op, *acc, y);
        match builder {
            0 => {
                let out = source.reduce_assoc(f).collect_vec();
                env.execute_blocking();
                match sorted(out.get()) {
                    Ok(v) => fmt_list(&v),
                    Err(e) => e,
                }
            }
            1 => {
                let out = source.group_by_reduce(|_| 0u8, f_mut).collect_vec();
                env.execute_blocking();
                fmt_keyed(out.get(), |x: &u64| x.to_string())
            }
            2 => {
                let out = source
                    .group_by_sum(|_| 0u8, |x: u64| x as u128)
                    .collect_vec();
                env.execute_blocking();
                fmt_keyed(out.get(), |x: &u128| x.to_string())
            }
            3 => {
                let out = source.group_by_count(|_| 0u8).collect_vec();
                env.execute_blocking();
                fmt_keyed(out.get(), |x: &usize| x.to_string())
            }
            4 => {
                let out = source
                    .group_by_avg(|_| 0u8, |x: &u64| *x as f64)
                    .collect_vec();
                env.execute_blocking();
                fmt_keyed(out.get(), |x: &f64| format!("{:.6}", x))
            }
            5 => {
                let out = source
                    .group_by_min_element(|_| 0u8, |x: &u64| *x)
                    .collect_vec();
                env.execute_blocking();
                fmt_keyed(out.get(), |x: &u64| x.to_string())
            }
            6 => {
                let out = source
                    .group_by_max_element(|_| 0u8, |x: &u64| *x)
                    .collect_vec();
                env.execute_blocking();
                fmt_keyed(out.get(), |x: &u64| x.to_string())
            }
            _ => {
                let out = source.fold_assoc(0u64, f_mut, f_mut).collect_vec();
                env.execute_blocking();
                match sorted(out.get()) {
                    Ok(v) => fmt_list(&v),
                    Err(e) => e,
                }
            }
        }
    }))
}

// ---------------------------------------------------------------------------- replay / iterate

type IterState = (u64, u64);

fn local_fold(d: &mut u64, x: u64) {
    *d = d.wrapping_add(x);
}

fn global_fold(st: &mut IterState, d: u64) {
    // applied once per replica delta in arrival order: must be order-independent
    st.1 = st.1.wrapping_add(d);
}

fn iter_args(kind: &str, args: &[i128]) -> Result<(u64, u64, Vec<u64>), String> {
    let mut a = Args::new(kind, args);
    let par = par_arg(&mut a)?;
    let rounds = a.ranged("rounds", 0, 10_000)? as u64;
    let n = a.ranged("n", 0, MAX_ITEMS)? as usize;
    let xs = a.u64_list(n, "x")?;
    a.end()?;
    Ok((par, rounds, xs))
}

fn fmt_states(v: Option<Vec<IterState>>) -> String {
    match v {
        None => "NOOUTPUT".to_string(),
        Some(v) => {
            let mut vals: Vec<u64> = v.into_iter().map(|s| s.1).collect();
            vals.sort_unstable();
            fmt_list(&vals)
        }
    }
}

fn pipe_replay(args: &[i128]) -> Result<String, String> {
    let (par, rounds, xs) = iter_args("pipe_replay", args)?;
    Ok(supervised(move || {
        let env = context(par);
        let out = env
            .stream_iter(xs.into_iter())
            .shuffle()
            .replay(
                rounds as usize + 5,
                (0u64, 0u64),
                |s, state| s.map(move |x: u64| x.wrapping_mul(31).wrapping_add(state.get().1)),
                local_fold,
                global_fold,
                move |st: &mut IterState| {
                    st.0 += 1;
                    st.0 < rounds
                },
            )
            .collect_vec();
        env.execute_blocking();
        fmt_states(out.get())
    }))
}

fn pipe_iterate(args: &[i128]) -> Result<String, String> {
    let (par, rounds, xs) = iter_args("pipe_iterate", args)?;
    Ok(supervised(move || {
        let env = context(par);
        let (state, items) = env.stream_iter(xs.into_iter()).shuffle().iterate(
            rounds as usize + 5,
            (0u64, 0u64),
            |s, state| s.map(move |x: u64| x.wrapping_add(state.get().1).wrapping_add(1)),
            local_fold,
            global_fold,
            move |st: &mut IterState| {
                st.0 += 1;
                st.0 < rounds
            },
        );
        let state = state.collect_vec();
        let items = items.collect_vec();
        env.execute_blocking();
        let items = match sorted(items.get()) {
            Ok(v) => fmt_list(&v),
            Err(e) => e,
        };
        format!("{} || {}", fmt_states(state.get()), items)
    }))
}

/// pipe_nested [par, outer, inner, n, x*]: `replay(outer){ replay(inner){ x*31 + inner_state } -> final inner state }` with
/// the folds / conditions of pipe_replay on both levels; prints the final outer state value.
fn pipe_nested(args: &[i128]) -> Result<String, String> {
    let mut a = Args::new("pipe_nested", args);
    let par = par_arg(&mut a)?;
    let outer = a.ranged("outer", 1, 100)? as u64;
    let inner = a.ranged("inner", 1, 100)? as u64;
    let n = a.ranged("n", 0, MAX_ITEMS)? as usize;
    let xs = a.u64_list(n, "x")?;
    a.end()?;
    Ok(supervised(move || {
        let env = context(par);
        let out = env
            .stream_iter(xs.into_iter())
            .shuffle()
            .replay(
                outer as usize + 5,
                (0u64, 0u64),
                move |s, _outer_state| {
                    s.replay(
                        inner as usize + 5,
                        (0u64, 0u64),
                        |s2, state| s2.map(move |x: u64| x.wrapping_mul(31).wrapping_add(state.get().1)),
                        local_fold,
                        global_fold,
                        move |st: &mut IterState| {
                            st.0 += 1;
                            st.0 < inner
                        },
                    )
                    .map(|st: IterState| st.1)
                },
                local_fold,
                global_fold,
                move |st: &mut IterState| {
                    st.0 += 1;
                    st.0 < outer
                },
            )
            .collect_vec();
        env.execute_blocking();
        fmt_states(out.get())
    }))
}

/// pipe_agg2 [nparts, builder, op, n, (key, v, part)*, delay_ms * nparts]: items are `(key, v)` pairs produced by
/// `nparts` source replicas (item j by replica part_j, replica id starts after delay_id ms). builder: 0 `fold`,
/// 1 `fold_assoc`, 2 `reduce`, 3 `reduce_assoc` (all four over the values), 4 `group_by_fold`, 5 `group_by_reduce`,
/// 6 `group_by_sum`, 7 `group_by_count`, 8 `group_by_min_element`, 9 `group_by_max_element`, 10 `group_by(k).fold`,
/// 11 `group_by(k).reduce` (keyed by `key`). Output: the value (0..3) or sorted `key:value`.
fn pipe_agg2(args: &[i128]) -> Result<String, String> {
    let mut a = Args::new("pipe_agg2", args);
    let nparts = a.ranged("nparts", 1, MAX_PAR)? as u64;
    let builder = a.ranged("builder", 0, 11)? as u8;
    let op = a.ranged("op", 0, 2)? as u8;
    let n = a.ranged("n", 0, MAX_ITEMS)? as usize;
    let mut parts: Vec<Vec<Kv>> = vec![Vec::new(); nparts as usize];
    for _ in 0..n {
        let k = a.u64("key")?;
        let v = a.u64("v")?;
        let p = a.ranged("part", 0, nparts as i128 - 1)? as usize;
        parts[p].push((k, v));
    }
    let mut delays: Vec<u64> = Vec::new();
    for _ in 0..nparts {
        delays.push(a.ranged("delay_ms", 0, 5000)? as u64);
    }
    a.end()?;
    Ok(supervised(move || {
        let env = context(nparts);
        let source = env.stream_par_iter(move |id: u64, _n: u64| {
            let items = parts[id as usize].clone();
            let d = delays[id as usize];
            std::iter::once(()).flat_map(move |_| {
                if d > 0 {
                    std::thread::sleep(std::time::Duration::from_millis(d));
                }
                items.clone().into_iter()
            })
        });
        let f = move |x: u64, y: u64| agg_op(op, x, y);
        let f_mut = move |acc: &mut u64, y: u64| *acc = agg_op(op, *acc, y);
        let glob = |out: Option<Vec<u64>>| match sorted(out) {
            Ok(v) => fmt_list(&v),
            Err(e) => e,
        };
        match builder {
            0 => {
                let out = source.map(|x: Kv| x.1).fold(0u64, f_mut).collect_vec();
                env.execute_blocking();
                glob(out.get())
            }
            1 => {
                let out = source.map(|x: Kv| x.1).fold_assoc(0u64, f_mut, f_mut).collect_vec();
                env.execute_blocking();
                glob(out.get())
            }
            2 => {
                let out = source.map(|x: Kv| x.1).reduce(f).collect_vec();
                env.execute_blocking();
                glob(out.get())
            }
            3 => {
                let out = source.map(|x: Kv| x.1).reduce_assoc(f).collect_vec();
                env.execute_blocking();
                glob(out.get())
            }
            4 => {
                let out = source
                    .group_by_fold(
                        |x: &Kv| x.0,
                        0u64,
                        move |acc: &mut u64, x: Kv| *acc = agg_op(op, *acc, x.1),
                        f_mut,
                    )
                    .collect_vec();
                env.execute_blocking();
                fmt_kv(out.get())
            }
            5 => {
                let out = source
                    .group_by_reduce(|x: &Kv| x.0, move |acc: &mut Kv, x: Kv| acc.1 = agg_op(op, acc.1, x.1))
                    .collect_vec();
                env.execute_blocking();
                fmt_kv(out.get().map(|v| v.into_iter().map(|(k, x)| (k, x.1)).collect()))
            }
            6 => {
                let out = source.group_by_sum(|x: &Kv| x.0, |x: Kv| x.1).collect_vec();
                env.execute_blocking();
                fmt_kv(out.get())
            }
            7 => {
                let out = source.group_by_count(|x: &Kv| x.0).collect_vec();
                env.execute_blocking();
                fmt_kv(out.get().map(|v| v.into_iter().map(|(k, c)| (k, c as u64)).collect()))
            }
            8 => {
                let out = source
                    .group_by_min_element(|x: &Kv| x.0, |x: &Kv| x.1)
                    .collect_vec();
                env.execute_blocking();
                fmt_kv(out.get().map(|v| v.into_iter().map(|(k, x)| (k, x.1)).collect()))
            }
            9 => {
                let out = source
                    .group_by_max_element(|x: &Kv| x.0, |x: &Kv| x.1)
                    .collect_vec();
                env.execute_blocking();
                fmt_kv(out.get().map(|v| v.into_iter().map(|(k, x)| (k, x.1)).collect()))
            }
            10 => {
                let out = source
                    .group_by(|x: &Kv| x.0)
                    .fold(0u64, move |acc: &mut u64, x: Kv| *acc = agg_op(op, *acc, x.1))
                    .collect_vec();
                env.execute_blocking();
                fmt_kv(out.get())
            }
            _ => {
                let out = source
                    .group_by(|x: &Kv| x.0)
                    .reduce(move |acc: &mut Kv, x: Kv| acc.1 = agg_op(op, acc.1, x.1))
                    .collect_vec();
                env.execute_blocking();
                fmt_kv(out.get().map(|v| v.into_iter().map(|(k, x)| (k, x.1)).collect()))
            }
        }
    }))
}

// ---------------------------------------------------------------------------- connection kinds (C03)

type Kv = (u64, u64);

fn kv_source(items: Vec<Kv>) -> impl Fn(u64, u64) -> std::vec::IntoIter<Kv> + Send + Clone + 'static {
    move |id: u64, n: u64| {
        items
            .iter()
            .enumerate()
            .filter(|(i, _)| (*i as u64) % n == id)
            .map(|(_, x)| *x)
            .collect::<Vec<Kv>>()
            .into_iter()
    }
}

fn fmt_kv(out: Option<Vec<Kv>>) -> String {
    match out {
        None => "NOOUTPUT".to_string(),
        Some(mut v) => {
            v.sort_unstable();
            let toks: Vec<String> = v.iter().map(|(k, x)| format!("{}:{}", k, x)).collect();
            fmt_list(&toks)
        }
    }
}

fn fmt_join(out: Option<Vec<(u64, (Kv, Option<Kv>))>>) -> String {
    match out {
        None => "NOOUTPUT".to_string(),
        Some(v) => {
            let mut toks: Vec<String> = v
                .iter()
                .map(|(k, (l, r))| match r {
                    Some(r) => format!("{}:{}-{}", k, l.1, r.1),
                    None => format!("{}:{}-_", k, l.1),
                })
                .collect();
            toks.sort();
            fmt_list(&toks)
        }
    }
}

/// pipe_wiring [par, builder, nl, (k, v)*, nr, (k, v)*]: both inputs are produced by `par` source replicas (item j by
/// replica j % par); builder 0 `shuffle()`, 1 `broadcast()`, 2 `group_by(k).fold(count)`, 3 left join with
/// `ship_hash().local_hash()`, 4 left join with `ship_broadcast_right().local_hash()`, 5 `group_by_count(k)` keyed-joined
/// with `group_by(k)` of the right input (`k:count-rv`). Output: sorted `k:v` (0, 1),
/// `k:count` (2), `k:lv-rv` / `k:lv-_` (3, 4).
fn pipe_wiring(args: &[i128]) -> Result<String, String> {
    let mut a = Args::new("pipe_wiring", args);
    let par = par_arg(&mut a)?;
    let builder = a.ranged("builder", 0, 5)? as u8;
    let nl = a.ranged("nl", 0, MAX_ITEMS)? as usize;
    let mut l: Vec<Kv> = Vec::new();
    for _ in 0..nl {
        l.push((a.u64("k")?, a.u64("v")?));
    }
    let nr = a.ranged("nr", 0, MAX_ITEMS)? as usize;
    let mut r: Vec<Kv> = Vec::new();
    for _ in 0..nr {
        r.push((a.u64("k")?, a.u64("v")?));
    }
    a.end()?;
    Ok(supervised(move || {
        let env = context(par);
        let s1 = env.stream_par_iter(kv_source(l));
        match builder {
            0 => {
                let out = s1.shuffle().collect_vec();
                env.execute_blocking();
                fmt_kv(out.get())
            }
            1 => {
                let out = s1.broadcast().collect_vec();
                env.execute_blocking();
                fmt_kv(out.get())
            }
            2 => {
                let out = s1
                    .group_by(|x: &Kv| x.0)
                    .fold(0u64, |acc: &mut u64, _x: Kv| *acc += 1)
                    .collect_vec();
                env.execute_blocking();
                fmt_kv(out.get())
            }
            3 => {
                let s2 = env.stream_par_iter(kv_source(r));
                let out = s1
                    .join_with(s2, |x: &Kv| x.0, |y: &Kv| y.0)
                    .ship_hash()
                    .local_hash()
                    .left()
                    .unkey()
                    .collect_vec();
                env.execute_blocking();
                fmt_join(out.get())
            }
            5 => {
                // co-partitioning of a two-phase keyed aggregation with group_by: the keyed join forwards both sides
                // without repartitioning, so it only finds the matches if both were routed by the same function of the key
                let s2 = env.stream_par_iter(kv_source(r));
                let counts = s1.group_by_count(|x: &Kv| x.0);
                let out = counts
                    .join(s2.group_by(|y: &Kv| y.0))
                    .unkey()
                    .collect_vec();
                env.execute_blocking();
                match out.get() {
                    None => "NOOUTPUT".to_string(),
                    Some(v) => {
                        let mut toks: Vec<String> = v
                            .iter()
                            .map(|(k, (c, r))| format!("{}:{}-{}", k, c, r.1))
                            .collect();
                        toks.sort();
                        fmt_list(&toks)
                    }
                }
            }
            _ => {
                let s2 = env.stream_par_iter(kv_source(r));
                let out = s1
                    .join_with(s2, |x: &Kv| x.0, |y: &Kv| y.0)
                    .ship_broadcast_right()
                    .local_hash()
                    .left()
                    .collect_vec();
                env.execute_blocking();
                fmt_join(out.get())
            }
        }
    }))
}

fn part_source(parts: Vec<Vec<Kv>>) -> impl Fn(u64, u64) -> std::vec::IntoIter<Kv> + Send + Clone + 'static {
    move |id: u64, _n: u64| parts[id as usize].clone().into_iter()
}

fn fmt_opt_join(out: Option<Vec<(u64, Option<Kv>, Option<Kv>)>>) -> String {
    match out {
        None => "NOOUTPUT".to_string(),
        Some(v) => {
            let show = |x: &Option<Kv>| match x {
                Some(x) => x.1.to_string(),
                None => "_".to_string(),
            };
            let mut toks: Vec<String> = v
                .iter()
                .map(|(k, l, r)| format!("{}:{}-{}", k, show(l), show(r)))
                .collect();
            toks.sort();
            fmt_list(&toks)
        }
    }
}

/// pipe_join [par, api, nl, (k, v, part)*, nr, (k, v, part)*]: both inputs come from `par` source replicas (item j from
/// replica part_j). api: 0 `join`, 1 `left_join`, 2 `outer_join`, 3 `join_with.ship_hash.local_hash.outer`,
/// 4 `..ship_hash.local_sort_merge.left`, 5 `..ship_broadcast_right.local_hash.left`,
/// 6 `..ship_broadcast_right.local_sort_merge.inner`. Output: sorted `k:lv-rv` (`_` = None).
fn pipe_join(args: &[i128]) -> Result<String, String> {
    let mut a = Args::new("pipe_join", args);
    let par = par_arg(&mut a)?;
    let api = a.ranged("api", 0, 6)? as u8;
    let mut sides: Vec<Vec<Vec<Kv>>> = Vec::new();
    for _ in 0..2 {
        let n = a.ranged("n", 0, MAX_ITEMS)? as usize;
        let mut parts: Vec<Vec<Kv>> = vec![Vec::new(); par as usize];
        for _ in 0..n {
            let k = a.u64("k")?;
            let v = a.u64("v")?;
            let p = a.ranged("part", 0, par as i128 - 1)? as usize;
            parts[p].push((k, v));
        }
        sides.push(parts);
    }
    a.end()?;
    let r = sides.pop().unwrap();
    let l = sides.pop().unwrap();
    Ok(supervised(move || {
        let env = context(par);
        let s1 = env.stream_par_iter(part_source(l));
        let s2 = env.stream_par_iter(part_source(r));
        let k1 = |x: &Kv| x.0;
        let k2 = |y: &Kv| y.0;
        match api {
            0 => {
                let out = s1.join(s2, k1, k2).collect_vec();
                env.execute_blocking();
                fmt_opt_join(out.get().map(|v| v.into_iter().map(|(k, (l, r))| (k, Some(l), Some(r))).collect()))
            }
            1 => {
                let out = s1.left_join(s2, k1, k2).collect_vec();
                env.execute_blocking();
                fmt_opt_join(out.get().map(|v| v.into_iter().map(|(k, (l, r))| (k, Some(l), r)).collect()))
            }
            2 => {
                let out = s1.outer_join(s2, k1, k2).collect_vec();
                env.execute_blocking();
                fmt_opt_join(out.get().map(|v| v.into_iter().map(|(k, (l, r))| (k, l, r)).collect()))
            }
            3 => {
                let out = s1.join_with(s2, k1, k2).ship_hash().local_hash().outer().collect_vec();
                env.execute_blocking();
                fmt_opt_join(out.get().map(|v| v.into_iter().map(|(k, (l, r))| (k, l, r)).collect()))
            }
            4 => {
                let out = s1
                    .join_with(s2, k1, k2)
                    .ship_hash()
                    .local_sort_merge()
                    .left()
                    .collect_vec();
                env.execute_blocking();
                fmt_opt_join(out.get().map(|v| v.into_iter().map(|(k, (l, r))| (k, Some(l), r)).collect()))
            }
            5 => {
                let out = s1
                    .join_with(s2, k1, k2)
                    .ship_broadcast_right()
                    .local_hash()
                    .left()
                    .collect_vec();
                env.execute_blocking();
                fmt_opt_join(out.get().map(|v| v.into_iter().map(|(k, (l, r))| (k, Some(l), r)).collect()))
            }
            _ => {
                let out = s1
                    .join_with(s2, k1, k2)
                    .ship_broadcast_right()
                    .local_sort_merge()
                    .inner()
                    .collect_vec();
                env.execute_blocking();
                fmt_opt_join(out.get().map(|v| v.into_iter().map(|(k, (l, r))| (k, Some(l), Some(r))).collect()))
            }
        }
    }))
}

struct Paced {
    start: std::time::Instant,
    events: Vec<(u64, Kv)>,
    end_at: u64,
    pos: usize,
}

impl Paced {
    fn wait(&self, ms: u64) {
        let t = self.start + std::time::Duration::from_millis(ms);
        let now = std::time::Instant::now();
        if t > now {
            std::thread::sleep(t - now);
        }
    }
}

impl Iterator for Paced {
    type Item = Kv;
    fn next(&mut self) -> Option<Kv> {
        if self.pos < self.events.len() {
            let (at, item) = self.events[self.pos];
            self.pos += 1;
            self.wait(at);
            Some(item)
        } else {
            self.wait(self.end_at);
            None
        }
    }
}

/// pipe_keyed_join [variant(0 inner / 2 outer), nevents, (kind, key, id)*]: kind 0 = left item, 1 = right item,
/// 2 = the left input ends, 3 = the right input ends; event i happens 80 ms after event i-1 (BatchMode::single, one
/// replica), so the items and the ends of the two sides reach the join in script order.
/// Job: `l.group_by(key).join / join_outer(r.group_by(key))`. Output: sorted `k:lid-rid` (`_` = None).
fn pipe_keyed_join(args: &[i128]) -> Result<String, String> {
    let mut a = Args::new("pipe_keyed_join", args);
    let variant = a.ranged("variant", 0, 2)? as u8;
    let n = a.ranged("nevents", 2, MAX_ITEMS)? as usize;
    let mut ev: Vec<Vec<(u64, Kv)>> = vec![Vec::new(), Vec::new()];
    let mut ends = [0u64, 0u64];
    for i in 0..n {
        let kind = a.ranged("kind", 0, 3)?;
        let k = a.u64("key")?;
        let id = a.u64("id")?;
        let at = 300 + 80 * i as u64;
        match kind {
            0 => ev[0].push((at, (k, id))),
            1 => ev[1].push((at, (k, id))),
            2 => ends[0] = at,
            _ => ends[1] = at,
        }
    }
    a.end()?;
    if ends[0] == 0 || ends[1] == 0 {
        return Err("BADARGS pipe_keyed_join: both sides need an end event".into());
    }
    let r_ev = ev.pop().unwrap();
    let l_ev = ev.pop().unwrap();
    Ok(supervised(move || {
        let env = context(1);
        let start = std::time::Instant::now();
        let l = env
            .stream_iter(Paced { start, events: l_ev, end_at: ends[0], pos: 0 })
            .batch_mode(BatchMode::single())
            .group_by(|x: &Kv| x.0);
        let r = env
            .stream_iter(Paced { start, events: r_ev, end_at: ends[1], pos: 0 })
            .batch_mode(BatchMode::single())
            .group_by(|x: &Kv| x.0);
        if variant == 0 {
            let out = l.join(r).collect_vec();
            env.execute_blocking();
            fmt_opt_join(out.get().map(|v| v.into_iter().map(|(k, (l, r))| (k, Some(l), Some(r))).collect()))
        } else {
            let out = l.join_outer(r).collect_vec();
            env.execute_blocking();
            fmt_opt_join(out.get().map(|v| v.into_iter().map(|(k, (l, r))| (k, l, r)).collect()))
        }
    }))
}

// ------------------------------------------------------------------------------------- panic (C20)

/// pipe_panic [n(1..=8), mask] -> `FAILED|RETURNED FAILED|RETURNED`
/// Job: `stream_par_iter(0..n).for_each(|x| if mask >> x & 1 == 1 { panic!() })` on `local(n)`: the range source
/// gives replica i the element i, and the sink lives in the source's block, so exactly the replicas in `mask` fail
/// and nothing else fails as a consequence. Run twice: with `mask` and with the mirrored mask (bit i <-> bit
/// n-1-i), since the order in which the scheduler joins the workers is not part of the interface. Each token
/// tells whether `execute_blocking` failed (panicked) or returned normally.
fn pipe_panic(args: &[i128]) -> Result<String, String> {
    let mut a = Args::new("pipe_panic", args);
    let n = a.ranged("n", 1, 8)? as u64;
    let mask = a.ranged("mask", 0, (1 << n) - 1)? as u64;
    a.end()?;
    let mirrored = (0..n).fold(0u64, |m, i| m | ((mask >> i & 1) << (n - 1 - i)));
    Ok(supervised(move || {
        let mut toks = Vec::new();
        for m in [mask, mirrored] {
            let env = context(n);
            env.stream_par_iter(0..n).for_each(move |x| {
                if m >> x & 1 == 1 {
                    panic!("verif: injected user-function panic in replica {}", x);
                }
            });
            let r = std::panic::catch_unwind(std::panic::AssertUnwindSafe(|| env.execute_blocking()));
            toks.push(if r.is_err() { "FAILED" } else { "RETURNED" });
        }
        PANICKING.store(false, Ordering::SeqCst);
        toks.join(" ")
    }))
}

#[no_mangle]
pub fn verif_replay_pipe(name: &str, args: &[i128]) -> Option<String> {
    let r = match name {
        "pipe_merge" => pipe_merge(args),
        "pipe_route" => pipe_route(args),
        "pipe_split" => pipe_split(args),
        "pipe_agg" => pipe_agg(args),
        "pipe_replay" => pipe_replay(args),
        "pipe_iterate" => pipe_iterate(args),
        "pipe_wiring" => pipe_wiring(args),
        "pipe_nested" => pipe_nested(args),
        "pipe_agg2" => pipe_agg2(args),
        "pipe_join" => pipe_join(args),
        "pipe_keyed_join" => pipe_keyed_join(args),
        "pipe_panic" => pipe_panic(args),
        _ => return None,
    };
    Some(match r {
        Ok(s) => s,
        Err(e) => e,
    })
}
