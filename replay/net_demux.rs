// target: src/network/sync/demultiplexer.rs
// Native replay of the demultiplexer loop (C02): kind `demux`.
// args = [n_endpoints(1..=3), nmsgs, dest_0 .. dest_(nmsgs-1)]       (dest = replica index of the recipient)
//
// The real `demux_thread::<u64>` runs on its own thread over a real loopback TcpStream. Message j is the single-item
// batch [Item(j+1)] for ReceiverEndpoint(Coord(2,0,dest_j), 1), written by the real `remote_send` into the client
// side of the connection. The recipients' queues are real bounded channels of capacity 1, each pre-filled with a
// dummy batch [Item(0)], and the recipients are slow: they only start reading 1.6 s after the start. Message 0 is
// written at t = 0 (it meets a full queue), the others from t = 2.6 s on, 50 ms apart; then the client side is
// closed. Output: per endpoint the payloads it received in order (the dummy excluded), endpoints separated by ` | `;
// `TIMEOUT` is appended when the demultiplexer thread has not finished 12 s after the start.
#![allow(dead_code, unused_imports, unused_variables, clippy::all)]

use std::io::Write;
use std::net::{TcpListener, TcpStream};
use std::sync::mpsc;
use std::time::{Duration, Instant};

use super::*;
use crate::network::remote::remote_send;
use crate::network::{Coord, DemuxCoord, NetworkMessage, ReceiverEndpoint};
use crate::operator::StreamElement;

fn run(args: &[i128]) -> String {
    if args.len() < 2 || args[0] < 1 || args[0] > 3 || args[1] < 0 || args.len() != 2 + args[1] as usize {
        return "BADARGS demux expects [n_endpoints, nmsgs, dest*]".into();
    }
    let n_ep = args[0] as u64;
    let dests: Vec<u64> = args[2..].iter().map(|d| *d as u64).collect();
    if dests.iter().any(|d| *d >= n_ep) {
        return "BADARGS demux dest out of range".into();
    }
    let listener = TcpListener::bind("127.0.0.1:0").expect("verif: bind");
    let addr = listener.local_addr().unwrap();
    let mut client = TcpStream::connect(addr).expect("verif: connect");
    let (server, _) = listener.accept().expect("verif: accept");

    let endpoint = |r: u64| ReceiverEndpoint::new(Coord::new(2, 0, r), 1);
    let mut senders = HashMap::new();
    let mut receivers = Vec::new();
    for r in 0..n_ep {
        let (tx, rx) = channel::bounded::<NetworkMessage<u64>>(1);
        tx.send(NetworkMessage::new_batch(vec![StreamElement::Item(0)], Coord::new(9, 0, 0))).unwrap();
        senders.insert(endpoint(r), tx);
        receivers.push(rx);
    }
    let coord = DemuxCoord::new(Coord::new(1, 0, 0), Coord::new(2, 0, 0));
    let (done_tx, done_rx) = mpsc::channel::<()>();
    let demux = std::thread::Builder::new()
        .name("verif-demux".into())
        .spawn(move || {
            demux_thread::<u64>(coord, senders, server);
            let _ = done_tx.send(());
        })
        .unwrap();

    // recipients: slow start, then drain until the channel is closed (demux finished and dropped the senders)
    let t0 = Instant::now();
    let mut consumers = Vec::new();
    for rx in receivers {
        consumers.push(std::thread::spawn(move || {
            std::thread::sleep(Duration::from_millis(1600));
            let mut got = Vec::new();
            while let Ok(msg) = rx.recv_timeout(Duration::from_millis(9000)) {
                for el in msg.into_iter() {
                    if let StreamElement::Item(x) = el {
                        if x != 0 {
                            got.push(x);
                        }
                    }
                }
            }
            got
        }));
    }
    // the remote sender
    for (j, d) in dests.iter().enumerate() {
        if j == 1 {
            let el = t0.elapsed();
            if el < Duration::from_millis(2600) {
                std::thread::sleep(Duration::from_millis(2600) - el);
            }
        } else if j > 1 {
            std::thread::sleep(Duration::from_millis(50));
        }
        let msg = NetworkMessage::new_batch(vec![StreamElement::Item(j as u64 + 1)], Coord::new(1, 0, 0));
        remote_send(msg, endpoint(*d), &mut client, "verif");
        let _ = client.flush();
    }
    if dests.len() <= 1 {
        std::thread::sleep(Duration::from_millis(2600));
    }
    drop(client);
    let finished = done_rx.recv_timeout(Duration::from_millis(12_000)).is_ok();
    let mut sections = Vec::new();
    for c in consumers {
        let got = c.join().unwrap_or_default();
        sections.push(if got.is_empty() {
            "-".to_string()
        } else {
            got.iter().map(|x| x.to_string()).collect::<Vec<_>>().join(" ")
        });
    }
    let mut out = sections.join(" | ");
    if !finished {
        out.push_str(" TIMEOUT");
    }
    out
}

#[no_mangle]
pub fn verif_replay_net_demux(name: &str, args: &[i128]) -> Option<String> {
    match name {
        "demux" => Some(run(args)),
        _ => None,
    }
}
