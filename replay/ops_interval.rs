// target: src/operator/interval_join.rs
// Native replay driver for the IntervalJoin operator (see replay/SPEC.md, sixth batch): kind
// `interval_join`.
//
// args: [2, lower, upper, element*]   (keyed encoding, usual element tags)
//       `1 key val ts` stands for Timestamped((key, MergeElement::Left(id)), ts) when val = 2*id and
//       for Timestamped((key, MergeElement::Right(id)), ts) when val = 2*id + 1; `0 key val` is the
//       same payload as a plain Item (the real operator panics on it -> PANIC).
// `IntervalJoin::<u64, u64, u64, _>::new(ScriptOp, lower, upper)` polled until Terminate; `setup` is
// not called (it only forwards to the upstream). Call budget 8*len(script)+8 plus
// (#left + 1) * (#right + 1) of the whole script (an interval join legitimately emits up to
// #left * #right tuples), then OVERRUN.
// Output: T(key:l-r@ts) for Timestamped((key, (l, r)), ts), I(key:l-r) for an Item, W(ts), B, F, E.
// The operator's own asserts (timestamps not increasing, ..) print PANIC.
#![allow(dead_code, unused_imports, unused_variables, clippy::all)]

use super::*;
use crate::operator::verif_replay_ops::{parse, ScriptOp};

type In = (u64, MergeElement<u64, u64>);
type Out = (u64, (u64, u64));

fn side(kv: (u64, u64)) -> In {
    let (key, val) = kv;
    if val % 2 == 0 {
        (key, MergeElement::Left(val / 2))
    } else {
        (key, MergeElement::Right(val / 2))
    }
}

fn fmt_out(el: &StreamElement<Out>) -> String {
    match el {
        StreamElement::Item((k, (l, r))) => format!("I({}:{}-{})", k, l, r),
        StreamElement::Timestamped((k, (l, r)), ts) => format!("T({}:{}-{}@{})", k, l, r, ts),
        StreamElement::Watermark(ts) => format!("W({})", ts),
        StreamElement::FlushBatch => "B".into(),
        StreamElement::FlushAndRestart => "F".into(),
        StreamElement::Terminate => "E".into(),
    }
}

fn run(args: &[i128]) -> Result<String, String> {
    let p = parse(args, 2)?;
    let (lower, upper) = (p.params[0], p.params[1]);
    for b in [lower, upper] {
        if b < Timestamp::MIN as i128 || b > Timestamp::MAX as i128 {
            return Err(format!("BADARGS interval_join bound {}", b));
        }
    }
    let script: Vec<StreamElement<In>> = p.script.into_iter().map(|e| e.map(side)).collect();
    let n = script.len();
    let count = |left: bool| {
        script
            .iter()
            .filter(|e| match e {
                StreamElement::Item((_, m)) | StreamElement::Timestamped((_, m), _) => {
                    matches!(m, MergeElement::Left(_)) == left
                }
                _ => false,
            })
            .count()
    };
    let budget = 8 * n + 8 + (count(true) + 1) * (count(false) + 1);

    let mut op: IntervalJoin<u64, u64, u64, ScriptOp<In>> =
        IntervalJoin::new(ScriptOp::new(script), lower as Timestamp, upper as Timestamp);

    let mut out = Vec::new();
    let mut ended = false;
    for _ in 0..budget {
        let el = op.next();
        out.push(fmt_out(&el));
        if matches!(el, StreamElement::Terminate) {
            ended = true;
            break;
        }
    }
    if !ended {
        out.push("OVERRUN".into());
    }
    Ok(out.join(" "))
}

#[no_mangle]
pub fn verif_replay_ops_interval(name: &str, args: &[i128]) -> Option<String> {
    if name != "interval_join" {
        return None;
    }
    Some(match run(args) {
        Ok(s) => s,
        Err(e) => e,
    })
}
