// target: src/block/mod.rs
// Native replay of the Replication algebra (C19): kind `repl_algebra`.
// args = [ka, qa, kb, qb, kc, qc, cores]; k: 0 Unlimited, 1 Limited(q), 2 Host, 3 One.
// Output: `ab ba ab_c a_bc aa ca cb cab` where xy = x.intersect(y) printed as U / L<q> / H / O and c* = clamp(cores).
#![allow(dead_code, unused_imports)]
use super::*;

fn mk(k: i128, q: i128) -> Option<Replication> {
    match k {
        0 => Some(Replication::Unlimited),
        1 => Some(Replication::Limited(q as CoordUInt)),
        2 => Some(Replication::Host),
        3 => Some(Replication::One),
        _ => None,
    }
}

fn show(r: Replication) -> String {
    match r {
        Replication::Unlimited => "U".into(),
        Replication::Limited(q) => format!("L{}", q),
        Replication::Host => "H".into(),
        Replication::One => "O".into(),
    }
}

#[no_mangle]
pub fn verif_replay_blk_repl(name: &str, a: &[i128]) -> Option<String> {
    if name != "repl_algebra" {
        return None;
    }
    if a.len() != 7 {
        return Some("BADARGS repl_algebra expects 7 values".into());
    }
    let (x, y, z) = match (mk(a[0], a[1]), mk(a[2], a[3]), mk(a[4], a[5])) {
        (Some(x), Some(y), Some(z)) => (x, y, z),
        _ => return Some("BADARGS repl_algebra kind".into()),
    };
    let n = a[6] as CoordUInt;
    let ab = x.intersect(y);
    let ba = y.intersect(x);
    Some(format!(
        "{} {} {} {} {} {} {} {}",
        show(ab),
        show(ba),
        show(ab.intersect(z)),
        show(x.intersect(y.intersect(z))),
        show(x.intersect(x)),
        x.clamp(n),
        y.clamp(n),
        ab.clamp(n)
    ))
}
