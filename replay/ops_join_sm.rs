// target: src/operator/join/local_sort_merge.rs
// Native replay driver for the private JoinLocalSortMerge operator (see replay/SPEC.md, third
// batch): kind `join` with algo = 1 (algo = 0 and the malformed invocations are answered by
// ops_join_hash.rs, which comes first in the dispatcher).
//
// args: [2, algo, variant(0 Inner / 1 Left / 2 Outer), element*], elements
//       10 key id = Left((key,id)), 11 key id = Right((key,id)), 12 = LeftEnd, 13 = RightEnd,
//       3 / 4 / 5 = FlushBatch / Terminate / FlushAndRestart (2 ts = Watermark: the operator panics)
// `JoinLocalSortMerge::new(ScriptOp, variant, |x| x.0, |x| x.0)` is polled until Terminate; `setup`
// is not called (it only forwards to the upstream). Output: J(key;lid;rid) / F / E / B.
#![allow(dead_code, unused_imports, unused_variables, clippy::all)]

use super::*;
use crate::operator::verif_replay_ops::{drive_join, parse_join, JoinIn, ScriptOp};

fn run(args: &[i128]) -> Result<Option<String>, String> {
    let p = parse_join(args)?;
    if p.algo != 1 {
        return Ok(None);
    }
    let variant = match p.variant {
        0 => JoinVariant::Inner,
        1 => JoinVariant::Left,
        _ => JoinVariant::Outer,
    };
    let n = p.script.len();
    let extra = p.max_tuples();
    let up: ScriptOp<JoinIn> = ScriptOp::new(p.script);
    let op = JoinLocalSortMerge::new(
        up,
        variant,
        |x: &(u64, u64)| x.0,
        |x: &(u64, u64)| x.0,
    );
    Ok(Some(drive_join(op, n, extra)))
}

#[no_mangle]
pub fn verif_replay_ops_join_sm(name: &str, args: &[i128]) -> Option<String> {
    if name != "join" {
        return None;
    }
    match run(args) {
        Ok(r) => r,
        Err(e) => Some(e),
    }
}
