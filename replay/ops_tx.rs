// target: src/operator/window/descr/transaction.rs
// Native replay driver for the transaction window manager (see replay/SPEC.md, sixth batch): kind
// `mgr_transaction`.
//
// args: [2n, (code_1, t_1) .. (code_n, t_n), element*]   (unkeyed u64 payloads, usual element tags)
//       one pair per Timestamped element of the script, in script order (BADARGS when the number of
//       pairs differs from the number of Timestamped elements); code 0 = TransactionOp::Continue,
//       1 = Commit, 2 = CommitAfter(t), 3 = Discard (t is ignored unless code = 2).
// `TransactionWindow::new(logic).build(VecAcc)` where `logic` returns the j-th op at its j-th call
// (`logic` has to be `Fn + Clone + Send + 'static`, so the call counter is a shared atomic; a call
// beyond the scripted ops, which the real manager never makes, returns Continue). `process(el)` is
// called once per script element; manager-level output exactly as `mgr_count` (results of each call
// separated by ` | `). An `Item` element makes the real manager panic -> PANIC.
#![allow(dead_code, unused_imports, unused_variables, clippy::all)]

use std::sync::atomic::{AtomicUsize, Ordering};
use std::sync::Arc;

use super::*;
use crate::operator::verif_replay_ops::{drive_mgr, parse, VecAcc};
use crate::operator::window::WindowDescription;

fn run(args: &[i128]) -> Result<String, String> {
    if args.is_empty() || args[0] < 0 || args[0] % 2 != 0 {
        return Err("BADARGS mgr_transaction expects [2n, (code, t)*n, element*]".into());
    }
    let p = parse(args, args[0] as usize)?;
    let mut ops: Vec<(u8, i64)> = Vec::new();
    for pair in p.params.chunks(2) {
        let (code, t) = (pair[0], pair[1]);
        if !(0..=3).contains(&code) {
            return Err(format!("BADARGS mgr_transaction op code {}", code));
        }
        if t < i64::MIN as i128 || t > i64::MAX as i128 {
            return Err(format!("BADARGS mgr_transaction time {}", t));
        }
        ops.push((code as u8, t as i64));
    }
    let script = p.unkeyed();
    let nts = script
        .iter()
        .filter(|e| matches!(e, StreamElement::Timestamped(_, _)))
        .count();
    if nts != ops.len() {
        return Err(format!(
            "BADARGS mgr_transaction {} ops for {} timestamped elements",
            ops.len(),
            nts
        ));
    }

    let ops = Arc::new(ops);
    let calls = Arc::new(AtomicUsize::new(0));
    let logic = move |_x: &u64| -> TransactionOp {
        let j = calls.fetch_add(1, Ordering::SeqCst);
        match ops.get(j).copied() {
            Some((1, _)) => TransactionOp::Commit,
            Some((2, t)) => TransactionOp::CommitAfter(t),
            Some((3, _)) => TransactionOp::Discard,
            _ => TransactionOp::Continue,
        }
    };
    let descr = TransactionWindow::new(logic);
    let mgr = WindowDescription::<u64>::build(&descr, VecAcc::default());
    Ok(drive_mgr(mgr, script))
}

#[no_mangle]
pub fn verif_replay_ops_tx(name: &str, args: &[i128]) -> Option<String> {
    if name != "mgr_transaction" {
        return None;
    }
    Some(match run(args) {
        Ok(s) => s,
        Err(e) => e,
    })
}
