// target: src/operator/source/iterator.rs
// Native replay of IteratorSource (C15): kind `iterator_source`. args = [n, x_1 .. x_n] (u64 items).
// `IteratorSource::new(items.into_iter())`, `next()` until Terminate (at most n + 8 calls, then OVERRUN).
#![allow(dead_code, unused_imports)]
use super::*;

#[no_mangle]
pub fn verif_replay_src_iter(name: &str, a: &[i128]) -> Option<String> {
    if name != "iterator_source" {
        return None;
    }
    if a.is_empty() || a[0] < 0 || a.len() != 1 + a[0] as usize {
        return Some(format!("BADARGS iterator_source {:?}", a));
    }
    let items: Vec<u64> = a[1..].iter().map(|x| *x as u64).collect();
    let n = items.len();
    let mut src = IteratorSource::new(items.into_iter());
    let mut toks = Vec::new();
    let mut ended = false;
    for _ in 0..n + 8 {
        let t = match src.next() {
            StreamElement::Item(v) => format!("I({})", v),
            StreamElement::Timestamped(v, ts) => format!("T({}@{})", v, ts),
            StreamElement::Watermark(ts) => format!("W({})", ts),
            StreamElement::FlushBatch => "B".to_string(),
            StreamElement::FlushAndRestart => "F".to_string(),
            StreamElement::Terminate => "E".to_string(),
        };
        let end = t == "E";
        toks.push(t);
        if end {
            ended = true;
            break;
        }
    }
    if !ended {
        toks.push("OVERRUN".into());
    }
    Some(toks.join(" "))
}
