// target: src/config.rs
// Helper for the fourth batch of replay drivers (see replay/SPEC.md, "scheduler / topology"): no kind
// of its own. `RemoteConfig::host_id` is private to src/config.rs, so the remote configuration used by
// sched.rs (block_info, graph) and topo.rs (topology_build) is built here, as an associated function
// of `RuntimeConfig` (the module `verif_replay_cfg` itself is private to `crate::config`, an
// associated function is reachable from every module that sees the type).
//
//   RuntimeConfig::verif_remote(&[(num_cores, base_port)], host_id)
//     -> RuntimeConfig::Remote(RemoteConfig { host_id: Some(host_id), hosts, tracing_dir: None,
//                                             cleanup_executable: false })
//   host i: address "h<i>", the given base_port / num_cores, ssh = SSHConfig::default(), no perf_path.
//   No validation (ConfigBuilder::build would reject host_id >= hosts.len(); this does not).
#![allow(dead_code, unused_imports, unused_variables, clippy::all)]

use super::*;

impl RuntimeConfig {
    pub(crate) fn verif_remote(hosts: &[(CoordUInt, u16)], host_id: HostId) -> RuntimeConfig {
        let hosts = hosts
            .iter()
            .enumerate()
            .map(|(i, &(num_cores, base_port))| HostConfig {
                address: format!("h{}", i),
                base_port,
                num_cores,
                ssh: SSHConfig::default(),
                perf_path: None,
            })
            .collect();
        RuntimeConfig::Remote(RemoteConfig {
            host_id: Some(host_id),
            hosts,
            tracing_dir: None,
            cleanup_executable: false,
        })
    }
}

#[no_mangle]
pub fn verif_replay_cfg(_name: &str, _args: &[i128]) -> Option<String> {
    None
}
