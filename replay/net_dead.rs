// target: src/operator/start/mod.rs
// Native replay of `Start` over a channel whose producers are gone (C20): kind `dead_start`.
// args = [adaptive(0/1)]. Topology as in net_start.rs with one producer Coord(1,0,0); after `setup` every sender of the
// channel (the producer's handle and the topology, which owns the other clones) is dropped WITHOUT a Terminate having
// been sent, then `next()` is called up to 4 times on a worker thread (watchdog 5 s -> TIMEOUT).
// Output: the tokens returned by `next()`; a panic inside Start propagates (the driver prints PANIC).
#![allow(dead_code, unused_imports, unused_variables, clippy::all)]

use std::any::TypeId;
use std::sync::mpsc;
use std::time::Duration;

use super::*;
use crate::network::{NetworkSender, NetworkTopology, ReceiverEndpoint};
use crate::operator::verif_replay_ops::fmt_el;
use crate::{BatchMode, RuntimeConfig};

fn run(args: &[i128]) -> Result<String, String> {
    if args.len() != 1 || (args[0] != 0 && args[0] != 1) {
        return Err("BADARGS dead_start expects [adaptive(0/1)]".into());
    }
    let adaptive = args[0] == 1;
    let mut topology = NetworkTopology::new(RuntimeConfig::local(1).unwrap());
    let dest = Coord::new(0, 0, 0);
    let from = Coord::new(1, 0, 0);
    let typ = TypeId::of::<u64>();
    topology.connect(from, dest, typ, false);
    topology.build();
    let sender: NetworkSender<u64> = topology.get_sender(ReceiverEndpoint::new(dest, 1));
    let batch_mode = if adaptive {
        BatchMode::adaptive(1024, Duration::from_millis(100))
    } else {
        BatchMode::fixed(1024)
    };
    let mut start = Start::<SimpleStartReceiver<u64>>::single(1, None);
    {
        let mut metadata = ExecutionMetadata {
            coord: dest,
            replicas: vec![dest],
            global_id: 0,
            prev: vec![(from, typ)],
            network: &mut topology,
            batch_mode,
        };
        start.setup(&mut metadata);
    }
    // the producer dies: all sending ends disappear
    drop(sender);
    drop(topology);

    let (tok_tx, tok_rx) = mpsc::channel::<String>();
    let consumer = std::thread::Builder::new()
        .name("verif-dead-start".into())
        .spawn(move || {
            for _ in 0..4 {
                let el = start.next();
                let _ = tok_tx.send(fmt_el(&el));
                if matches!(el, StreamElement::Terminate) {
                    break;
                }
            }
            let _ = tok_tx.send("\u{0}DONE".into());
        })
        .unwrap();
    let mut out = Vec::new();
    loop {
        match tok_rx.recv_timeout(Duration::from_millis(5000)) {
            Ok(t) if t == "\u{0}DONE" => break,
            Ok(t) => out.push(t),
            Err(mpsc::RecvTimeoutError::Timeout) => {
                out.push("TIMEOUT".into());
                return Ok(out.join(" "));
            }
            Err(mpsc::RecvTimeoutError::Disconnected) => match consumer.join() {
                Err(p) => std::panic::resume_unwind(p),
                Ok(()) => panic!("verif: consumer vanished"),
            },
        }
    }
    if let Err(p) = consumer.join() {
        std::panic::resume_unwind(p);
    }
    Ok(out.join(" "))
}

#[no_mangle]
pub fn verif_replay_net_dead(name: &str, args: &[i128]) -> Option<String> {
    match name {
        "dead_start" => Some(match run(args) {
            Ok(s) => s,
            Err(e) => e,
        }),
        _ => None,
    }
}
