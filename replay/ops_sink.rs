// target: src/operator/sink/mod.rs
// Native replay of the sinks (C20): kind `sink`.
// args = [sink(0 collect_vec | 1 collect::<Vec<_>> | 2 collect_count), panic_at (-1 = never), element*]
//        elements in the usual unkeyed encoding; the upstream panics when polled for the element with
//        index `panic_at` (the user function upstream panicked).
// Output: one flag per `next()` call: 1 if the shared output slot holds a result *before* that call, else 0;
//         then `P` if the upstream panic surfaced or `E` if Terminate was returned; then `OUT [a,b,..]`,
//         `OUT n` (count) or `OUT -` (slot empty) as found after the run.
#![allow(dead_code, unused_imports)]
use super::*;
use crate::block::{BlockStructure, OperatorStructure};
use crate::operator::{Operator, StreamElement};
use crate::scheduler::ExecutionMetadata;
use std::panic::{catch_unwind, AssertUnwindSafe};
use std::sync::{Arc, Mutex};

#[derive(Clone)]
struct PanicOp<T: Clone> {
    script: Vec<StreamElement<T>>,
    pos: usize,
    panic_at: i128,
}

impl<T: Clone> std::fmt::Display for PanicOp<T> {
    fn fmt(&self, f: &mut std::fmt::Formatter<'_>) -> std::fmt::Result {
        write!(f, "PanicOp")
    }
}

impl<T: crate::operator::Data> Operator for PanicOp<T> {
    type Out = T;
    fn setup(&mut self, _m: &mut ExecutionMetadata) {}
    fn next(&mut self) -> StreamElement<T> {
        if self.pos as i128 == self.panic_at {
            panic!("verif: injected user panic");
        }
        let e = self.script.get(self.pos).cloned().expect("verif: polled after the end");
        self.pos += 1;
        e
    }
    fn structure(&self) -> BlockStructure {
        BlockStructure::default().add_operator(OperatorStructure::new::<T, _>("PanicOp"))
    }
}

fn parse_script(a: &[i128]) -> Result<Vec<StreamElement<u64>>, String> {
    let mut i = 0;
    let mut out = Vec::new();
    while i < a.len() {
        match a[i] {
            0 => { out.push(StreamElement::Item(a[i + 2] as u64)); i += 3 }
            1 => { out.push(StreamElement::Timestamped(a[i + 2] as u64, a[i + 3] as i64)); i += 4 }
            2 => { out.push(StreamElement::Watermark(a[i + 1] as i64)); i += 2 }
            3 => { out.push(StreamElement::FlushBatch); i += 1 }
            4 => { out.push(StreamElement::Terminate); i += 1 }
            5 => { out.push(StreamElement::FlushAndRestart); i += 1 }
            t => return Err(format!("BADARGS element tag {}", t)),
        }
    }
    Ok(out)
}

fn drive<S: Operator, R>(mut sink: S, slot: Arc<Mutex<Option<R>>>, n: usize, show: impl Fn(&R) -> String) -> String {
    let mut toks = Vec::new();
    let mut ended = "X";
    for _ in 0..n + 2 {
        toks.push(if slot.lock().unwrap().is_some() { "1".to_string() } else { "0".to_string() });
        match catch_unwind(AssertUnwindSafe(|| sink.next())) {
            Ok(StreamElement::Terminate) => { ended = "E"; break }
            Ok(_) => {}
            Err(_) => { ended = "P"; break }
        }
    }
    toks.push(ended.to_string());
    let fin = match slot.lock() {
        Ok(g) => match g.as_ref() { Some(r) => format!("OUT {}", show(r)), None => "OUT -".to_string() },
        Err(_) => "OUT POISONED".to_string(),
    };
    toks.push(fin);
    toks.join(" ")
}

#[no_mangle]
pub fn verif_replay_ops_sink(name: &str, a: &[i128]) -> Option<String> {
    if name != "sink" {
        return None;
    }
    if a.len() < 2 {
        return Some("BADARGS sink".into());
    }
    let script = match parse_script(&a[2..]) { Ok(s) => s, Err(e) => return Some(e) };
    let n = script.len();
    let showv = |v: &Vec<u64>| format!("[{}]", v.iter().map(|x| x.to_string()).collect::<Vec<_>>().join(","));
    // silence the injected panic message
    let prev = std::panic::take_hook();
    std::panic::set_hook(Box::new(|_| {}));
    let r = match a[0] {
        0 => {
            let slot: Arc<Mutex<Option<Vec<u64>>>> = Arc::new(Mutex::new(None));
            let up = PanicOp { script, pos: 0, panic_at: a[1] };
            drive(collect_vec::CollectVecSink::new(up, slot.clone()), slot, n, showv)
        }
        1 => {
            let slot: Arc<Mutex<Option<Vec<u64>>>> = Arc::new(Mutex::new(None));
            let up = PanicOp { script, pos: 0, panic_at: a[1] };
            drive(collect::Collect::<u64, Vec<u64>, _>::new(up, slot.clone()), slot, n, showv)
        }
        2 => {
            let slot: Arc<Mutex<Option<usize>>> = Arc::new(Mutex::new(None));
            let s2: Vec<StreamElement<usize>> = script.into_iter().map(|e| e.map(|v| v as usize)).collect();
            let up = PanicOp { script: s2, pos: 0, panic_at: a[1] };
            drive(collect_count::CollectCountSink::new(up, slot.clone()), slot, n, |c: &usize| c.to_string())
        }
        k => format!("BADARGS sink kind {}", k),
    };
    std::panic::set_hook(prev);
    Some(r)
}
