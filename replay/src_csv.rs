// target: src/operator/source/csv.rs
// Native replay driver for CsvSource (C15): kind `csv_source`.
//
// args: [replicas, has_headers(0/1), nbytes, b0 .. b(nbytes-1)]
// The bytes are written to a temp file (removed afterwards). For every global_id in 0..replicas a fresh
// `CsvSource::<Vec<String>>::new(path).has_headers(h)` is set up with ExecutionMetadata{global_id: id,
// replicas: [Coord(0,0,0) .. Coord(0,0,replicas-1)], ..} and polled until Terminate (at most nbytes + 8
// calls, then OVERRUN). Output: per replica the emitted records, fields joined by `;`, one token per
// record, `<empty>` for a record that consists of one empty field; replicas separated by ` | `.
#![allow(dead_code, unused_imports, unused_variables, clippy::all)]

use std::io::Write;
use std::path::PathBuf;
use std::sync::atomic::{AtomicUsize, Ordering};

use super::*;
use crate::network::{Coord, NetworkTopology};
use crate::operator::{Operator, StreamElement};
use crate::scheduler::ExecutionMetadata;
use crate::{BatchMode, RuntimeConfig};

static COUNTER: AtomicUsize = AtomicUsize::new(0);

struct TempFile(PathBuf);

impl Drop for TempFile {
    fn drop(&mut self) {
        let _ = std::fs::remove_file(&self.0);
    }
}

fn run(args: &[i128]) -> String {
    if args.len() < 3 || args[0] < 1 || args[2] < 0 || (args[1] != 0 && args[1] != 1) {
        return "BADARGS csv_source expects [replicas, has_headers, nbytes, bytes*]".into();
    }
    let replicas = args[0] as u64;
    let has_headers = args[1] == 1;
    let nbytes = args[2] as usize;
    if args.len() != 3 + nbytes {
        return format!("BADARGS csv_source nbytes={} but {} bytes given", nbytes, args.len() - 3);
    }
    let mut bytes = Vec::with_capacity(nbytes);
    for &b in &args[3..] {
        if !(0..=255).contains(&b) {
            return format!("BADARGS csv_source byte {}", b);
        }
        bytes.push(b as u8);
    }
    let path = std::env::temp_dir().join(format!(
        "verif_replay_csv_{}_{}",
        std::process::id(),
        COUNTER.fetch_add(1, Ordering::SeqCst)
    ));
    let guard = TempFile(path.clone());
    {
        let mut f = std::fs::File::create(&path).expect("verif: cannot create temp file");
        f.write_all(&bytes).expect("verif: cannot write temp file");
        f.sync_all().ok();
    }
    let mut topology = NetworkTopology::new(RuntimeConfig::local(1).unwrap());
    let coords: Vec<Coord> = (0..replicas).map(|r| Coord::new(0, 0, r)).collect();
    let budget = nbytes + 8;
    let mut sections = Vec::new();
    for id in 0..replicas {
        let mut src = CsvSource::<Vec<String>>::new(path.clone()).has_headers(has_headers);
        {
            let mut metadata = ExecutionMetadata {
                coord: coords[id as usize],
                replicas: coords.clone(),
                global_id: id,
                prev: vec![],
                network: &mut topology,
                batch_mode: BatchMode::fixed(1024),
            };
            src.setup(&mut metadata);
        }
        let mut toks = Vec::new();
        let mut ended = false;
        for _ in 0..budget {
            match src.next() {
                StreamElement::Item(rec) => {
                    let s = rec.join(";");
                    toks.push(if s.is_empty() { "<empty>".to_string() } else { s });
                }
                StreamElement::FlushAndRestart => {}
                StreamElement::Terminate => {
                    ended = true;
                    break;
                }
                _ => toks.push("?".into()),
            }
        }
        if !ended {
            toks.push("OVERRUN".into());
        }
        sections.push(toks.join(" "));
    }
    drop(guard);
    sections.join(" | ")
}

#[no_mangle]
pub fn verif_replay_src_csv(name: &str, args: &[i128]) -> Option<String> {
    match name {
        "csv_source" => Some(run(args)),
        _ => None,
    }
}
