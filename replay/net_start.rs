// target: src/operator/start/mod.rs
// Native replay driver for the Start operator (see replay/SPEC.md, second batch): kind `start`.
//
// kind `start_crash`: same arguments; the script lacks the Terminate (and possibly more) of a producer that died: after
// the last scripted batch every sending end of the channel is dropped (see `crash` below). Expected: PANIC.
//
// args: [nsenders, adaptive(0/1), nbatches, batch*]
//       batch = sender_index, sleep_ms_before, nelems, element*      (elements: usual encoding, the
//       key of Item/Timestamped is ignored, payload u64)
//
// Topology: RuntimeConfig::local(1); previous block 1 with replicas Coord(1,0,0..nsenders) connected
// (TypeId of u64, not fragile) to Coord(0,0,0). `Start::<SimpleStartReceiver<u64>>::single(1, None)`
// is set up with BatchMode::fixed(1024) / BatchMode::adaptive(1024, 100 ms). A helper thread sends
// the batches in script order through the real NetworkSenders
// (`NetworkMessage::new_batch(elements, Coord(1,0,sender_index))`), sleeping `sleep_ms_before` before
// each one (the leading batches with sleep 0, at most 16 of them, are already in the channel when the
// first `next()` is issued). `next()` is called until Terminate (inclusive), at most
// 8*(nelements+nbatches)+8 times (then OVERRUN).
//
// Watchdog: `next()` runs on a worker thread and the calling thread collects the tokens with a
// deadline of 10 s (env VERIF_REPLAY_WATCHDOG_MS overrides) plus the sum of the scripted sleeps; when
// it expires the tokens seen so far are printed followed by `TIMEOUT`. The topology (which owns a
// clone of the sender) is kept alive while waiting, so a Start that misses a Terminate blocks (and
// yields TIMEOUT) rather than failing with "Network receiver failed". A panic inside Start is
// propagated (the driver prints PANIC).
#![allow(dead_code, unused_imports, unused_variables, clippy::all)]

use std::any::TypeId;
use std::sync::mpsc;
use std::time::{Duration, Instant};

use super::*;
use crate::network::{NetworkSender, NetworkTopology, ReceiverEndpoint};
use crate::operator::verif_replay_ops::{fmt_el, parse};
use crate::{BatchMode, RuntimeConfig};

struct Batch {
    sender: usize,
    sleep_ms: u64,
    elems: Vec<StreamElement<u64>>,
}

fn elem_len(tag: i128) -> Option<usize> {
    match tag {
        0 => Some(3),
        1 => Some(4),
        2 => Some(2),
        3 | 4 | 5 => Some(1),
        _ => None,
    }
}

fn parse_batches(args: &[i128], nsenders: usize, nbatches: usize) -> Result<Vec<Batch>, String> {
    let mut i = 3;
    let mut out = Vec::new();
    for b in 0..nbatches {
        if i + 3 > args.len() {
            return Err(format!("BADARGS start: truncated header of batch {}", b));
        }
        let (s, sleep, n) = (args[i], args[i + 1], args[i + 2]);
        if s < 0 || s as usize >= nsenders {
            return Err(format!("BADARGS start: sender index {} in batch {}", s, b));
        }
        if sleep < 0 || n < 0 {
            return Err(format!("BADARGS start: negative sleep/nelems in batch {}", b));
        }
        i += 3;
        let first = i;
        for _ in 0..n {
            if i >= args.len() {
                return Err(format!("BADARGS start: truncated batch {}", b));
            }
            let l = elem_len(args[i])
                .ok_or_else(|| format!("BADARGS element tag {} at {}", args[i], i))?;
            i += l;
        }
        if i > args.len() {
            return Err(format!("BADARGS start: truncated element in batch {}", b));
        }
        // reuse the shared element decoder: [nparams = 0, element*]
        let mut sub = vec![0i128];
        sub.extend_from_slice(&args[first..i]);
        let p = parse(&sub, 0)?;
        out.push(Batch {
            sender: s as usize,
            sleep_ms: sleep as u64,
            elems: p.unkeyed(),
        });
    }
    if i != args.len() {
        return Err(format!("BADARGS start: {} trailing values", args.len() - i));
    }
    Ok(out)
}

fn run(args: &[i128], crash: bool) -> Result<String, String> {
    if args.len() < 3 || args[0] < 0 || args[2] < 0 || !(args[1] == 0 || args[1] == 1) {
        return Err("BADARGS start expects [nsenders, adaptive(0/1), nbatches, batch*]".into());
    }
    let nsenders = args[0] as usize;
    let adaptive = args[1] == 1;
    let nbatches = args[2] as usize;
    let batches = parse_batches(args, nsenders, nbatches)?;
    let nelems: usize = batches.iter().map(|b| b.elems.len()).sum();
    let total_sleep: u64 = batches.iter().map(|b| b.sleep_ms).sum();
    let budget = 8 * (nelems + nbatches) + 8;

    // --- topology (what FakeNetworkTopology does, with the element type's real TypeId)
    let mut topology = NetworkTopology::new(RuntimeConfig::local(1).unwrap());
    let dest = Coord::new(0, 0, 0);
    let typ = TypeId::of::<u64>();
    let mut prev = Vec::new();
    let mut senders: Vec<(Coord, NetworkSender<u64>)> = Vec::new();
    for r in 0..nsenders as u64 {
        let from = Coord::new(1, 0, r);
        topology.connect(from, dest, typ, false);
        prev.push((from, typ));
    }
    topology.build();
    for r in 0..nsenders as u64 {
        let from = Coord::new(1, 0, r);
        senders.push((from, topology.get_sender(ReceiverEndpoint::new(dest, 1))));
    }

    let batch_mode = if adaptive {
        BatchMode::adaptive(1024, Duration::from_millis(100))
    } else {
        BatchMode::fixed(1024)
    };

    let mut start = Start::<SimpleStartReceiver<u64>>::single(1, None);
    {
        let mut metadata = ExecutionMetadata {
            coord: dest,
            replicas: vec![dest],
            global_id: 0,
            prev: prev.clone(),
            network: &mut topology,
            batch_mode,
        };
        start.setup(&mut metadata);
    }
    if crash {
        // kind `start_crash`: the topology's own clones of the senders disappear now and the producers' handles when
        // the script is over (without the missing Terminate): the channel becomes disconnected, as it does when an
        // upstream worker unwinds after a panic
        drop(std::mem::replace(
            &mut topology,
            NetworkTopology::new(RuntimeConfig::local(1).unwrap()),
        ));
    }

    // --- leading batches without sleep (at most 16 = capacity of the real channel, so `send` cannot
    // block) are sent before the consumer starts: same order as the helper thread would produce,
    // but an adaptive Start cannot time out before the first batch on a loaded machine
    let mut batches = batches;
    let lead = batches
        .iter()
        .take(16)
        .take_while(|b| b.sleep_ms == 0)
        .count();
    for b in batches.drain(..lead) {
        let (coord, tx) = &senders[b.sender];
        let _ = tx.send(NetworkMessage::new_batch(b.elems, *coord));
    }
    if crash && batches.is_empty() {
        senders.clear();
    }

    // --- consumer: the real Start, polled on its own thread so that the watchdog can give up
    let (tok_tx, tok_rx) = mpsc::channel::<String>();
    let consumer = std::thread::Builder::new()
        .name("verif-start".into())
        .spawn(move || {
            let mut ended = false;
            for _ in 0..budget {
                let el = start.next();
                let _ = tok_tx.send(fmt_el(&el));
                if matches!(el, StreamElement::Terminate) {
                    ended = true;
                    break;
                }
            }
            if !ended {
                let _ = tok_tx.send("OVERRUN".into());
            }
            let _ = tok_tx.send("\u{0}DONE".into());
        })
        .unwrap();

    // --- producer: sends the scripted batches
    let producer = std::thread::Builder::new()
        .name("verif-senders".into())
        .spawn(move || {
            for b in batches {
                if b.sleep_ms > 0 {
                    std::thread::sleep(Duration::from_millis(b.sleep_ms));
                }
                let (coord, tx) = &senders[b.sender];
                // the receiver may be gone already (Start terminated): not an error of the driver
                let _ = tx.send(NetworkMessage::new_batch(b.elems, *coord));
            }
        })
        .unwrap();

    let watchdog_ms = std::env::var("VERIF_REPLAY_WATCHDOG_MS")
        .ok()
        .and_then(|s| s.parse::<u64>().ok())
        .unwrap_or(10_000);
    let deadline = Instant::now() + Duration::from_millis(watchdog_ms + total_sleep);

    let mut out = Vec::new();
    loop {
        let now = Instant::now();
        let left = if deadline > now {
            deadline - now
        } else {
            Duration::from_millis(0)
        };
        match tok_rx.recv_timeout(left) {
            Ok(t) if t == "\u{0}DONE" => break,
            Ok(t) => out.push(t),
            Err(mpsc::RecvTimeoutError::Timeout) => {
                out.push("TIMEOUT".into());
                // leave the stuck threads (and the channel they wait on) alone: the process exits
                // right after the result is printed
                std::mem::forget(topology);
                return Ok(out.join(" "));
            }
            Err(mpsc::RecvTimeoutError::Disconnected) => {
                // the consumer died without finishing: propagate its panic
                match consumer.join() {
                    Err(p) => std::panic::resume_unwind(p),
                    Ok(()) => panic!("verif: start consumer vanished"),
                }
            }
        }
    }
    if let Err(p) = consumer.join() {
        std::panic::resume_unwind(p);
    }
    // the producer may still be sleeping / sending batches nobody will read: do not wait for it
    drop(producer);
    std::mem::forget(topology);
    Ok(out.join(" "))
}

#[no_mangle]
pub fn verif_replay_net_start(name: &str, args: &[i128]) -> Option<String> {
    match name {
        "start" => Some(match run(args, false) {
            Ok(s) => s,
            Err(e) => e,
        }),
        "start_crash" => Some(match run(args, true) {
            Ok(s) => s,
            Err(e) => e,
        }),
        _ => None,
    }
}
