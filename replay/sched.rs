// target: src/scheduler.rs
// Native replay drivers for the scheduler (see replay/SPEC.md, fourth batch): kinds `block_info`,
// `graph`.
//
// Replication encoding: `kind, limit`; kind 0 Unlimited, 1 Limited(limit) (the enum variant is built
// directly, not through `Replication::new_limited`, so limit 0 does not assert), 2 Host, 3 One.
// Remote configuration: host i has address "h<i>", base_port 9000+100*i, cores_i cores, default ssh
// (RuntimeConfig::verif_remote in cfg.rs).
//
// block_info: args = [nhosts, cores_0 .. cores_(nhosts-1), kind, limit, host_id]
//       `Scheduler::new(config for host_id)`, then the private `remote_block_info(&block, &remote)` for a
//       block with id 7 (a trivial operator chain defined here, BatchMode::fixed(1024)) and the given replication.
//       Output `R 7.0.0 7.0.1 7.1.0 | G 7.0.0=0 7.0.1=1 7.1.0=2`: after R the replicas grouped by host
//       in ascending host order, inside a host in the stored order; after G `coord=global_id` sorted by
//       coord (numerically).
// graph: args = [nhosts, cores.., kind1, limit1, kind2, limit2, mode]
//       mode 0 forward (block 1 has is_only_one_strategy = true, `connect_blocks`), 1 fragile
//       (`connect_blocks_fragile`), 2 all-to-all (`connect_blocks`). Scheduler for host 0; the
//       `remote_block_info` of block 1 / block 2 are inserted in `block_info`, the connection 1 -> 2
//       (type u64) is registered, the private `build_execution_graph()` is called and every link of the
//       scheduler's NetworkTopology (`next` map, dumped by NetworkTopology::verif_links in topo.rs) is
//       printed as `1.0.0>2.0.0`, sorted numerically by (from, to), space separated.
#![allow(dead_code, unused_imports, unused_variables, clippy::all)]

use super::*;
use crate::block::Scheduling;
use crate::block::OperatorStructure;
use crate::operator::StreamElement;

/// Trivial operator chain of the blocks (the shared `ScriptOp` of ops.rs lives in a module private
/// to `crate::operator`, not reachable from here). Never polled.
#[derive(Clone)]
struct NopOp;

impl std::fmt::Display for NopOp {
    fn fmt(&self, f: &mut std::fmt::Formatter<'_>) -> std::fmt::Result {
        write!(f, "VerifNopOp")
    }
}

impl Operator for NopOp {
    type Out = u64;

    fn setup(&mut self, _metadata: &mut ExecutionMetadata) {}

    fn next(&mut self) -> StreamElement<u64> {
        StreamElement::Terminate
    }

    fn structure(&self) -> BlockStructure {
        BlockStructure::default().add_operator(OperatorStructure::new::<u64, _>("VerifNopOp"))
    }
}

fn replication(kind: i128, limit: i128, who: &str) -> Result<Replication, String> {
    Ok(match kind {
        0 => Replication::Unlimited,
        1 => {
            if limit < 0 || limit > u64::MAX as i128 {
                return Err(format!("BADARGS {} limit out of range: {}", who, limit));
            }
            Replication::Limited(limit as u64)
        }
        2 => Replication::Host,
        3 => Replication::One,
        k => return Err(format!("BADARGS {} replication kind {}", who, k)),
    })
}

/// `[nhosts, cores_0 .. cores_(nhosts-1), rest..]` -> (hosts as (cores, base_port), rest)
fn hosts<'a>(args: &'a [i128], who: &str, nrest: usize) -> Result<(Vec<(u64, u16)>, &'a [i128]), String> {
    if args.is_empty() || args[0] < 0 || args[0] > 565 {
        return Err(format!("BADARGS {} nhosts must be in 0..=565", who));
    }
    let nhosts = args[0] as usize;
    if args.len() != 1 + nhosts + nrest {
        return Err(format!(
            "BADARGS {} expects {} arguments, got {}",
            who,
            1 + nhosts + nrest,
            args.len()
        ));
    }
    let mut hosts = Vec::new();
    for (i, &c) in args[1..1 + nhosts].iter().enumerate() {
        if c < 0 || c > u64::MAX as i128 {
            return Err(format!("BADARGS {} cores out of range: {}", who, c));
        }
        hosts.push((c as u64, (9000 + 100 * i) as u16));
    }
    Ok((hosts, &args[1 + nhosts..]))
}

fn block(id: BlockId, replication: Replication, only_one: bool) -> Block<NopOp> {
    let mut b = Block::new(
        id,
        NopOp,
        BatchMode::fixed(1024),
        vec![],
        Scheduling { replication },
    );
    b.is_only_one_strategy = only_one;
    b
}

fn remote_info(sched: &Scheduler, b: &Block<NopOp>) -> SchedulerBlockInfo {
    match &sched.config {
        RuntimeConfig::Remote(remote) => sched.remote_block_info(b, remote),
        RuntimeConfig::Local(_) => unreachable!("verif: the configuration is always remote"),
    }
}

fn c(x: &Coord) -> String {
    format!("{}.{}.{}", x.block_id, x.host_id, x.replica_id)
}

fn block_info(args: &[i128]) -> Result<String, String> {
    let (hosts, rest) = hosts(args, "block_info", 3)?;
    let repl = replication(rest[0], rest[1], "block_info")?;
    if rest[2] < 0 || rest[2] > u64::MAX as i128 {
        return Err(format!("BADARGS block_info host_id out of range: {}", rest[2]));
    }
    let sched = Scheduler::new(RuntimeConfig::verif_remote(&hosts, rest[2] as u64));
    let info = remote_info(&sched, &block(7, repl, false));

    let mut out = vec!["R".to_string()];
    let mut host_ids: Vec<HostId> = info.replicas.keys().copied().collect();
    host_ids.sort();
    for h in host_ids {
        for x in &info.replicas[&h] {
            out.push(c(x));
        }
    }
    out.push("|".into());
    out.push("G".into());
    let mut ids: Vec<(Coord, CoordUInt)> = info.global_ids.iter().map(|(k, v)| (*k, *v)).collect();
    ids.sort();
    for (k, v) in ids {
        out.push(format!("{}={}", c(&k), v));
    }
    Ok(out.join(" "))
}

fn graph(args: &[i128]) -> Result<String, String> {
    let (hosts, rest) = hosts(args, "graph", 5)?;
    let r1 = replication(rest[0], rest[1], "graph")?;
    let r2 = replication(rest[2], rest[3], "graph")?;
    let mode = rest[4];
    if !(0..=2).contains(&mode) {
        return Err(format!("BADARGS graph mode {}", mode));
    }
    let mut sched = Scheduler::new(RuntimeConfig::verif_remote(&hosts, 0));
    let i1 = remote_info(&sched, &block(1, r1, mode == 0));
    let i2 = remote_info(&sched, &block(2, r2, false));
    sched.block_info.insert(1, i1);
    sched.block_info.insert(2, i2);
    let typ = TypeId::of::<u64>();
    if mode == 1 {
        sched.connect_blocks_fragile(1, 2, typ);
    } else {
        sched.connect_blocks(1, 2, typ);
    }
    sched.build_execution_graph();

    let toks: Vec<String> = sched
        .network
        .verif_links()
        .iter()
        .map(|(from, to, _fragile)| format!("{}>{}", c(from), c(to)))
        .collect();
    Ok(toks.join(" "))
}

#[no_mangle]
pub fn verif_replay_sched(name: &str, args: &[i128]) -> Option<String> {
    let r = match name {
        "block_info" => block_info(args),
        "graph" => graph(args),
        _ => return None,
    };
    Some(match r {
        Ok(s) => s,
        Err(e) => e,
    })
}
