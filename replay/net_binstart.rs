// target: src/operator/start/mod.rs
// Native replay driver for Start<BinaryStartReceiver> (kind `binstart`), derived from net_zip.rs.
// args: [nl, nr, left_cache(0/1), right_cache(0/1), nbatches, batch*]; output tokens L(v) R(v) LE RE W(ts) F E B.
//
// args: [nl, nr, nbatches, batch*]
//       batch = side(1|2), sender_index, nelems, element*      (elements: usual encoding, the key of
//       Item/Timestamped is ignored, payload u64)
//
// Topology: RuntimeConfig::local(1); block 1 with replicas Coord(1,0,0..nl) and block 2 with
// replicas Coord(2,0,0..nr), all connected (TypeId of u64, not fragile) to Coord(3,0,0).
// `Zip::<u64,u64>::new(1, 2, false, false, None)` is set up with BatchMode::fixed(1024). A helper
// thread sends the batches in script order through the real NetworkSenders
// (`NetworkMessage::new_batch(elements, Coord(side,0,sender_index))`); the order *within* a side is
// therefore the script order, the interleaving of the two sides seen by the operator is up to the
// real `select` of the binary start receiver. `next()` is called until Terminate (inclusive), at
// most 8*(nelements+nbatches)+8 times (then OVERRUN).
//
// Opt-in (not in the SPEC): env VERIF_REPLAY_ZIP_GAP_MS=<n> makes the helper thread sleep n ms after
// every batch, so that the operator has (very likely) consumed a batch before the next one exists,
// i.e. the two sides are *processed* in script order. Without it only the order within a side is
// fixed, which is enough for Item/Timestamped pairs but not for the position/value of Watermarks.
//
// Watchdog: `next()` runs on a worker thread and the calling thread collects the tokens with a
// deadline of 10 s (env VERIF_REPLAY_WATCHDOG_MS overrides) plus the scripted gaps; when it expires
// the tokens seen so far are printed followed by `TIMEOUT`. The topology (which owns a clone of the
// senders) is kept alive while waiting, so a Zip that misses a Terminate blocks (and yields TIMEOUT)
// rather than failing with "receiver failed". A panic inside Zip/Start is propagated (the driver
// prints PANIC); the panic hook is replaced for the worker thread by a one-line message, because
// printing a symbolized backtrace can take longer than the watchdog on a loaded machine (and the
// panic would then be reported as TIMEOUT).
#![allow(dead_code, unused_imports, unused_variables, clippy::all)]

use std::any::TypeId;
use std::sync::atomic::{AtomicBool, Ordering};
use std::sync::mpsc;
use std::time::{Duration, Instant};

use super::*;
use crate::network::{Coord, NetworkMessage, NetworkSender, NetworkTopology, ReceiverEndpoint};
use crate::operator::verif_replay_ops::parse;
use crate::operator::start::BinaryElement;

fn fmt_bin(el: &StreamElement<BinaryElement<u64, u64>>) -> String {
    let p = |b: &BinaryElement<u64, u64>| match b {
        BinaryElement::Left(v) => format!("L({})", v),
        BinaryElement::Right(v) => format!("R({})", v),
        BinaryElement::LeftEnd => "LE".to_string(),
        BinaryElement::RightEnd => "RE".to_string(),
    };
    match el {
        StreamElement::Item(b) => p(b),
        StreamElement::Timestamped(b, ts) => format!("{}@{}", p(b), ts),
        StreamElement::Watermark(ts) => format!("W({})", ts),
        StreamElement::FlushBatch => "B".into(),
        StreamElement::FlushAndRestart => "F".into(),
        StreamElement::Terminate => "E".into(),
    }
}
use crate::{BatchMode, RuntimeConfig};

const CONSUMER: &str = "verif-binstart";
/// Set by the panic hook as soon as the worker thread starts panicking.
static PANICKING: AtomicBool = AtomicBool::new(false);

struct Batch {
    /// 0 = left (block 1), 1 = right (block 2)
    side: usize,
    sender: usize,
    elems: Vec<StreamElement<u64>>,
}

fn elem_len(tag: i128) -> Option<usize> {
    match tag {
        0 => Some(3),
        1 => Some(4),
        2 => Some(2),
        3 | 4 | 5 => Some(1),
        _ => None,
    }
}

fn parse_batches(args: &[i128], n: [usize; 2], nbatches: usize) -> Result<Vec<Batch>, String> {
    let mut i = 5;
    let mut out = Vec::new();
    for b in 0..nbatches {
        if i + 3 > args.len() {
            return Err(format!("BADARGS zip: truncated header of batch {}", b));
        }
        let (side, s, cnt) = (args[i], args[i + 1], args[i + 2]);
        if side == 0 {
            // pause marker: [0, milliseconds, 0]
            out.push(Batch { side: 2, sender: s as usize, elems: Vec::new() });
            i += 3;
            continue;
        }
        if side != 1 && side != 2 {
            return Err(format!("BADARGS zip: side {} in batch {}", side, b));
        }
        let side = (side - 1) as usize;
        if s < 0 || s as usize >= n[side] {
            return Err(format!("BADARGS zip: sender index {} in batch {}", s, b));
        }
        if cnt < 0 {
            return Err(format!("BADARGS zip: negative nelems in batch {}", b));
        }
        i += 3;
        let first = i;
        for _ in 0..cnt {
            if i >= args.len() {
                return Err(format!("BADARGS zip: truncated batch {}", b));
            }
            let l = elem_len(args[i])
                .ok_or_else(|| format!("BADARGS element tag {} at {}", args[i], i))?;
            i += l;
        }
        if i > args.len() {
            return Err(format!("BADARGS zip: truncated element in batch {}", b));
        }
        // reuse the shared element decoder: [nparams = 0, element*]
        let mut sub = vec![0i128];
        sub.extend_from_slice(&args[first..i]);
        let p = parse(&sub, 0)?;
        out.push(Batch {
            side,
            sender: s as usize,
            elems: p.unkeyed(),
        });
    }
    if i != args.len() {
        return Err(format!("BADARGS zip: {} trailing values", args.len() - i));
    }
    Ok(out)
}

fn run(args: &[i128]) -> Result<String, String> {
    if args.len() < 5 || args[0] < 1 || args[1] < 1 || args[4] < 0 {
        return Err("BADARGS binstart expects [nl>=1, nr>=1, lc, rc, nbatches, batch*]".into());
    }
    let n = [args[0] as usize, args[1] as usize];
    let (lc, rc) = (args[2] != 0, args[3] != 0);
    let nbatches = args[4] as usize;
    let batches = parse_batches(args, n, nbatches)?;
    let nelems: usize = batches.iter().map(|b| b.elems.len()).sum();
    let budget = 8 * (nelems + nbatches) + 8;

    // --- topology (what FakeNetworkTopology does, with the element type's real TypeId)
    let mut topology = NetworkTopology::new(RuntimeConfig::local(1).unwrap());
    let dest = Coord::new(3, 0, 0);
    let typ = TypeId::of::<u64>();
    let mut prev = Vec::new();
    for side in 0..2usize {
        for r in 0..n[side] as u64 {
            let from = Coord::new(1 + side as u64, 0, r);
            topology.connect(from, dest, typ, false);
            prev.push((from, typ));
        }
    }
    topology.build();
    // senders[side][replica]: every replica of a block has its own handle on the (single) channel
    // towards (dest, block)
    let mut senders: Vec<Vec<(Coord, NetworkSender<u64>)>> = Vec::new();
    for side in 0..2usize {
        let block = 1 + side as u64;
        let mut v = Vec::new();
        for r in 0..n[side] as u64 {
            v.push((
                Coord::new(block, 0, r),
                topology.get_sender(ReceiverEndpoint::new(dest, block)),
            ));
        }
        senders.push(v);
    }

    let mut zip = Start::<BinaryStartReceiver<u64, u64>>::multiple(1, 2, lc, rc, None);
    {
        let mut metadata = ExecutionMetadata {
            coord: dest,
            replicas: vec![dest],
            global_id: 0,
            prev: prev.clone(),
            network: &mut topology,
            batch_mode: if std::env::var("VERIF_REPLAY_BINSTART_ADAPTIVE").is_ok() { BatchMode::adaptive(1024, Duration::from_millis(100)) } else { BatchMode::fixed(1024) },
        };
        zip.setup(&mut metadata);
    }

    // --- consumer: the real Zip, polled on its own thread so that the watchdog can give up
    let prev_hook = std::panic::take_hook();
    std::panic::set_hook(Box::new(move |info| {
        if std::thread::current().name() == Some(CONSUMER) {
            PANICKING.store(true, Ordering::SeqCst);
            eprintln!("verif-zip worker: {}", info);
        } else {
            prev_hook(info);
        }
    }));
    let (tok_tx, tok_rx) = mpsc::channel::<String>();
    let consumer = std::thread::Builder::new()
        .name(CONSUMER.into())
        .spawn(move || {
            let mut ended = false;
            for _ in 0..budget {
                let el = zip.next();
                let _ = tok_tx.send(fmt_bin(&el));
                if matches!(el, StreamElement::Terminate) {
                    ended = true;
                    break;
                }
            }
            if !ended {
                let _ = tok_tx.send("OVERRUN".into());
            }
            let _ = tok_tx.send("\u{0}DONE".into());
        })
        .unwrap();

    // --- producer: sends the scripted batches in order
    let gap_ms = std::env::var("VERIF_REPLAY_ZIP_GAP_MS")
        .ok()
        .and_then(|s| s.parse::<u64>().ok())
        .unwrap_or(0);
    let producer = std::thread::Builder::new()
        .name("verif-senders".into())
        .spawn(move || {
            for b in batches {
                if b.side == 2 {
                    std::thread::sleep(Duration::from_millis(b.sender as u64));
                    continue;
                }
                let (coord, tx) = &senders[b.side][b.sender];
                // the receiver may be gone already (Zip terminated): not an error of the driver
                let _ = tx.send(NetworkMessage::new_batch(b.elems, *coord));
                if gap_ms > 0 {
                    std::thread::sleep(Duration::from_millis(gap_ms));
                }
            }
        })
        .unwrap();

    let watchdog_ms = std::env::var("VERIF_REPLAY_WATCHDOG_MS")
        .ok()
        .and_then(|s| s.parse::<u64>().ok())
        .unwrap_or(10_000);
    let deadline = Instant::now() + Duration::from_millis(watchdog_ms + 2000 + gap_ms * nbatches as u64);

    let mut out = Vec::new();
    loop {
        let now = Instant::now();
        let left = if deadline > now {
            deadline - now
        } else {
            Duration::from_millis(0)
        };
        match tok_rx.recv_timeout(left) {
            Ok(t) if t == "\u{0}DONE" => break,
            Ok(t) => out.push(t),
            Err(mpsc::RecvTimeoutError::Timeout) => {
                if PANICKING.load(Ordering::SeqCst) {
                    // the worker is unwinding: that is a PANIC, not a TIMEOUT
                    match consumer.join() {
                        Err(p) => std::panic::resume_unwind(p),
                        Ok(()) => panic!("verif: zip consumer panicked"),
                    }
                }
                out.push("TIMEOUT".into());
                // leave the stuck threads (and the channels they wait on) alone: the process exits
                // right after the result is printed
                std::mem::forget(topology);
                return Ok(out.join(" "));
            }
            Err(mpsc::RecvTimeoutError::Disconnected) => {
                // the consumer died without finishing: propagate its panic
                match consumer.join() {
                    Err(p) => std::panic::resume_unwind(p),
                    Ok(()) => panic!("verif: zip consumer vanished"),
                }
            }
        }
    }
    if let Err(p) = consumer.join() {
        std::panic::resume_unwind(p);
    }
    // the producer may still be sending batches nobody will read: do not wait for it
    drop(producer);
    std::mem::forget(topology);
    Ok(out.join(" "))
}

#[no_mangle]
pub fn verif_replay_net_binstart(name: &str, args: &[i128]) -> Option<String> {
    match name {
        "binstart" => Some(match run(args) {
            Ok(s) => s,
            Err(e) => e,
        }),
        _ => None,
    }
}
