// target: src/channel.rs
// Native replay of the select wrappers (C02): kind `chan_select`.
// args = [timed(0/1), timeout_ns, na, nb]
// Two real bounded channels hold na messages 100.. and nb messages 200.. (all sent before the first call). The real
// `Receiver::select` / `Receiver::select_timeout(timeout)` is called until na + nb messages came out or it timed out 3
// times in a row / returned a closed channel. Output: `A<id>` / `B<id>` per message, `T` per timeout.
#![allow(dead_code, unused_imports, unused_variables, clippy::all)]

use super::*;

fn run(args: &[i128]) -> String {
    if args.len() != 4 || args[2] < 0 || args[3] < 0 || args[2] > 16 || args[3] > 16 {
        return "BADARGS chan_select expects [timed, timeout_ns, na, nb]".into();
    }
    let timed = args[0] == 1;
    let timeout = Duration::from_nanos(args[1].max(0) as u64);
    let (na, nb) = (args[2] as u64, args[3] as u64);
    let (ta, ra) = bounded::<u64>(16);
    let (tb, rb) = bounded::<u64>(16);
    for i in 0..na {
        ta.send(100 + i).unwrap();
    }
    for i in 0..nb {
        tb.send(200 + i).unwrap();
    }
    let mut out = Vec::new();
    let mut got = 0;
    let mut idle = 0;
    while got < na + nb && idle < 3 {
        let r = if timed {
            ra.select_timeout(&rb, timeout)
        } else {
            Ok(ra.select(&rb))
        };
        match r {
            Ok(SelectResult::A(Ok(x))) => {
                out.push(format!("A{}", x));
                got += 1;
                idle = 0;
            }
            Ok(SelectResult::B(Ok(x))) => {
                out.push(format!("B{}", x));
                got += 1;
                idle = 0;
            }
            Ok(_) => {
                out.push("CLOSED".into());
                break;
            }
            Err(_) => {
                out.push("T".into());
                idle += 1;
            }
        }
    }
    drop(ta);
    drop(tb);
    out.join(" ")
}

#[no_mangle]
pub fn verif_replay_chan(name: &str, args: &[i128]) -> Option<String> {
    match name {
        "chan_select" => Some(run(args)),
        _ => None,
    }
}
