// target: src/operator/end.rs
// Native replay drivers for the End operator and the group-by hash (see replay/SPEC.md, second
// batch): kinds `end`, `hash`.
//
// end:  args = [nparams, strategy, mode, bsize, nblocks, r_0 .. r_(nblocks-1), feedback_or_-1, element*]
//       (nparams = 5 + nblocks). strategy 0 OnlyOne, 1 Random, 2 GroupBy(|x: &(u64,u64)| x.0), 3 All.
//       mode 0 Single, 1 Fixed(bsize), 2 Adaptive(bsize, 1 hour). Payload (u64,u64).
//       End coord Coord(1,0,0); downstream block b has id 10+b and replicas
//       Coord(10+b, r/2, r%2) for r in 0..r_b, all in one RuntimeConfig::local(1) topology (in a local
//       config every channel is an in-memory channel whatever the host id).
//       Output: `10.0: [I(k:v) F] [E] ; 10.1: [F] [E] ; ...` one section per receiver in the order
//       (block, r), one `[..]` per received NetworkMessage, ` !sender=b.h.r` appended inside the
//       brackets when the message's sender() is not Coord(1,0,0).
//       The receivers are drained with try_recv after *every* End::next() call (not only after the
//       last one) because the real channels are bounded (16 messages) and End::next() would block
//       for ever on longer scripts; the per-receiver order of the messages is unaffected.
// hash: args = [k0, k1, ..] -> group_by_hash(&(k as u64)) of each key, space separated.
#![allow(dead_code, unused_imports, unused_variables, clippy::all)]

use std::any::TypeId;
use std::time::Duration;

use super::*;
use crate::network::{NetworkMessage, NetworkReceiver, NetworkTopology};
use crate::operator::verif_replay_ops::{fmt_el, parse, ScriptOp};
use crate::RuntimeConfig;

type P = (u64, u64);

struct Rx {
    label: String,
    rx: NetworkReceiver<P>,
    batches: Vec<String>,
}

fn drain(rxs: &mut [Rx], me: Coord) {
    for r in rxs.iter_mut() {
        while let Ok(msg) = r.rx.try_recv() {
            let sender = msg.sender();
            let mut toks: Vec<String> = msg.into_iter().map(|e| fmt_el(&e)).collect();
            if sender != me {
                toks.push(format!(
                    "!sender={}.{}.{}",
                    sender.block_id, sender.host_id, sender.replica_id
                ));
            }
            r.batches.push(format!("[{}]", toks.join(" ")));
        }
    }
}

fn run_end<IndexFn>(
    strategy: NextStrategy<P, IndexFn>,
    batch_mode: BatchMode,
    replicas: &[u64],
    feedback: Option<BlockId>,
    script: Vec<StreamElement<P>>,
) -> String
where
    IndexFn: KeyerFn<u64, P>,
{
    let n = script.len();
    let me = Coord::new(1, 0, 0);
    let typ = TypeId::of::<P>();

    let mut topology = NetworkTopology::new(RuntimeConfig::local(1).unwrap());
    let mut dests = Vec::new();
    for (b, &rb) in replicas.iter().enumerate() {
        for r in 0..rb {
            let to = Coord::new(10 + b as u64, r / 2, r % 2);
            topology.connect(me, to, typ, false);
            dests.push((format!("{}.{}", 10 + b, r), to));
        }
    }
    topology.build();

    let mut end = End::new(ScriptOp::new(script), strategy, batch_mode);
    if let Some(fb) = feedback {
        end.mark_feedback(fb);
    }
    {
        let mut metadata = ExecutionMetadata {
            coord: me,
            replicas: vec![me],
            global_id: 0,
            prev: vec![],
            network: &mut topology,
            batch_mode,
        };
        end.setup(&mut metadata);
    }

    let mut rxs: Vec<Rx> = dests
        .into_iter()
        .map(|(label, to)| Rx {
            label,
            rx: topology.get_receiver::<P>(ReceiverEndpoint::new(to, 1)),
            batches: Vec::new(),
        })
        .collect();

    let budget = 8 * n + 8;
    let mut ended = false;
    for _ in 0..budget {
        let el = end.next();
        drain(&mut rxs, me);
        if matches!(el, StreamElement::Terminate) {
            ended = true;
            break;
        }
    }
    drain(&mut rxs, me);

    let mut sections: Vec<String> = rxs
        .iter()
        .map(|r| {
            let mut s = format!("{}:", r.label);
            for b in &r.batches {
                s.push(' ');
                s.push_str(b);
            }
            s
        })
        .collect();
    let mut out = sections.join(" ; ");
    if !ended {
        if !out.is_empty() {
            out.push(' ');
        }
        out.push_str("OVERRUN");
    }
    out
}

fn run(name: &str, args: &[i128]) -> Result<Option<String>, String> {
    Ok(Some(match name {
        "end" => {
            if args.is_empty() || args[0] < 5 {
                return Err("BADARGS end expects nparams >= 5".into());
            }
            let p = parse(args, args[0] as usize)?;
            let (strategy, mode, bsize, nblocks) =
                (p.params[0], p.params[1], p.params[2], p.params[3]);
            if nblocks < 0 || p.params.len() != 5 + nblocks as usize {
                return Err(format!(
                    "BADARGS end nparams={} but nblocks={}",
                    p.params.len(),
                    nblocks
                ));
            }
            let nblocks = nblocks as usize;
            let mut replicas = Vec::new();
            for &r in &p.params[4..4 + nblocks] {
                if r < 0 {
                    return Err("BADARGS end negative replica count".into());
                }
                replicas.push(r as u64);
            }
            let fb = p.params[4 + nblocks];
            let feedback = if fb >= 0 { Some(10 + fb as u64) } else { None };
            let batch_mode = match mode {
                0 => BatchMode::single(),
                1 | 2 => {
                    if bsize <= 0 {
                        return Err("BADARGS end bsize must be positive".into());
                    }
                    if mode == 1 {
                        BatchMode::fixed(bsize as usize)
                    } else {
                        BatchMode::adaptive(bsize as usize, Duration::from_secs(3600))
                    }
                }
                m => return Err(format!("BADARGS end mode {}", m)),
            };
            match strategy {
                0 => run_end(NextStrategy::<P>::only_one(), batch_mode, &replicas, feedback, p.script),
                1 => run_end(NextStrategy::<P>::random(), batch_mode, &replicas, feedback, p.script),
                2 => run_end(
                    NextStrategy::<P>::group_by(|x: &(u64, u64)| x.0),
                    batch_mode,
                    &replicas,
                    feedback,
                    p.script,
                ),
                3 => run_end(NextStrategy::<P>::all(), batch_mode, &replicas, feedback, p.script),
                s => return Err(format!("BADARGS end strategy {}", s)),
            }
        }
        "hash" => {
            let v: Vec<String> = args
                .iter()
                .map(|&k| crate::block::group_by_hash(&(k as u64)).to_string())
                .collect();
            v.join(" ")
        }
        _ => return Ok(None),
    }))
}

#[no_mangle]
pub fn verif_replay_net_end(name: &str, args: &[i128]) -> Option<String> {
    match run(name, args) {
        Ok(r) => r,
        Err(e) => Some(e),
    }
}
