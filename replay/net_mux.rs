// target: src/network/sync/multiplexer.rs
// Native replay of the multiplexer loop (C02): kind `mux`.
// args = [n_endpoints(1..=3), nmsgs, dest_0 .. dest_(nmsgs-1)]
// The real `mux_thread::<u64>` runs over a real loopback TcpStream; message j = [Item(j+1)] for
// ReceiverEndpoint(Coord(2,0,dest_j), 1) is put (in order) into the real channel the thread reads from, then the
// channel is closed. The other end of the connection is read with the real `remote_recv` until it returns None.
// Output: one token `dest:payload` per message read, in wire order; `TIMEOUT` if the thread does not finish in 10 s.
#![allow(dead_code, unused_imports, unused_variables, clippy::all)]

use std::net::{TcpListener, TcpStream};
use std::sync::mpsc;
use std::time::Duration;

use super::*;
use crate::network::remote::remote_recv;
use crate::network::{Coord, DemuxCoord, NetworkMessage, ReceiverEndpoint};
use crate::operator::StreamElement;

fn run(args: &[i128]) -> String {
    if args.len() < 2 || args[0] < 1 || args[0] > 3 || args[1] < 0 || args.len() != 2 + args[1] as usize {
        return "BADARGS mux expects [n_endpoints, nmsgs, dest*]".into();
    }
    let dests: Vec<u64> = args[2..].iter().map(|d| *d as u64).collect();
    let listener = TcpListener::bind("127.0.0.1:0").expect("verif: bind");
    let addr = listener.local_addr().unwrap();
    let client = TcpStream::connect(addr).expect("verif: connect");
    let (mut server, _) = listener.accept().expect("verif: accept");
    let coord = DemuxCoord::new(Coord::new(1, 0, 0), Coord::new(2, 0, 0));
    let (tx, rx) = crate::channel::bounded::<(ReceiverEndpoint, NetworkMessage<u64>)>(4);
    let (done_tx, done_rx) = mpsc::channel::<()>();
    let mux = std::thread::Builder::new()
        .name("verif-mux".into())
        .spawn(move || {
            mux_thread::<u64>(coord, rx, client);
            let _ = done_tx.send(());
        })
        .unwrap();
    let reader = std::thread::spawn(move || {
        let mut toks = Vec::new();
        while let Some((dest, msg)) = remote_recv::<u64, _>(coord, &mut server, "verif") {
            for el in msg.into_iter() {
                if let StreamElement::Item(x) = el {
                    toks.push(format!("{}:{}", dest.coord.replica_id, x));
                }
            }
        }
        toks
    });
    for (j, d) in dests.iter().enumerate() {
        let msg = NetworkMessage::new_batch(vec![StreamElement::Item(j as u64 + 1)], Coord::new(1, 0, 0));
        tx.send((ReceiverEndpoint::new(Coord::new(2, 0, *d), 1), msg)).unwrap();
    }
    drop(tx);
    let finished = done_rx.recv_timeout(Duration::from_millis(10_000)).is_ok();
    if !finished {
        return "TIMEOUT".into();
    }
    let toks = reader.join().unwrap_or_default();
    if toks.is_empty() {
        "-".into()
    } else {
        toks.join(" ")
    }
}

#[no_mangle]
pub fn verif_replay_net_mux(name: &str, args: &[i128]) -> Option<String> {
    match name {
        "mux" => Some(run(args)),
        _ => None,
    }
}
