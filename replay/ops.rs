// target: src/operator/mod.rs
// Native replay drivers for single operators / window managers (see replay/SPEC.md).
// Kinds here: fold, keyed_fold, rich_map, reorder, mgr_count, mgr_event_time.
// The shared pieces (script upstream, argument decoding, output formatting, Vec accumulator) are
// pub(crate) so that ops_winop.rs (a child of operator::window) can reuse them.
#![allow(dead_code, unused_imports, unused_variables, clippy::all)]

use std::collections::VecDeque;
use std::fmt::Display;

use crate::block::{BlockStructure, OperatorStructure};
use crate::operator::window::{
    CountWindow, EventTimeWindow, WindowAccumulator, WindowDescription, WindowManager, WindowResult,
};
use crate::operator::{Operator, StreamElement, Timestamp};
use crate::scheduler::ExecutionMetadata;

// ------------------------------------------------------------------------------------------
// upstream operator replaying a script
// ------------------------------------------------------------------------------------------

#[derive(Clone)]
pub(crate) struct ScriptOp<T> {
    script: VecDeque<StreamElement<T>>,
    terminated: bool,
}

impl<T> ScriptOp<T> {
    pub(crate) fn new(script: Vec<StreamElement<T>>) -> Self {
        Self {
            script: script.into(),
            terminated: false,
        }
    }
}

impl<T> Display for ScriptOp<T> {
    fn fmt(&self, f: &mut std::fmt::Formatter<'_>) -> std::fmt::Result {
        write!(f, "VerifScriptOp<{}>", std::any::type_name::<T>())
    }
}

impl<T: Clone + Send + 'static> Operator for ScriptOp<T> {
    type Out = T;

    fn setup(&mut self, _metadata: &mut ExecutionMetadata) {}

    fn next(&mut self) -> StreamElement<T> {
        if self.terminated {
            panic!("verif upstream polled after Terminate");
        }
        match self.script.pop_front() {
            Some(el) => {
                if matches!(el, StreamElement::Terminate) {
                    self.terminated = true;
                }
                el
            }
            None => panic!("verif upstream polled past the end of its script"),
        }
    }

    fn structure(&self) -> BlockStructure {
        BlockStructure::default().add_operator(OperatorStructure::new::<T, _>("VerifScriptOp"))
    }
}

// ------------------------------------------------------------------------------------------
// argument decoding
// ------------------------------------------------------------------------------------------

pub(crate) struct Parsed {
    pub(crate) params: Vec<i128>,
    pub(crate) script: Vec<StreamElement<(u64, u64)>>,
}

impl Parsed {
    pub(crate) fn unkeyed(&self) -> Vec<StreamElement<u64>> {
        self.script
            .iter()
            .cloned()
            .map(|e| e.map(|(_, v)| v))
            .collect()
    }
}

/// `[nparams, p0 .. p(nparams-1), element*]`
pub(crate) fn parse(args: &[i128], nparams: usize) -> Result<Parsed, String> {
    if args.is_empty() {
        return Err("BADARGS empty".into());
    }
    if args[0] < 0 || args[0] as usize != nparams {
        return Err(format!("BADARGS nparams={} expected={}", args[0], nparams));
    }
    if args.len() < 1 + nparams {
        return Err("BADARGS truncated params".into());
    }
    let params = args[1..1 + nparams].to_vec();
    let mut script = Vec::new();
    let mut i = 1 + nparams;
    let need = |i: usize, n: usize| -> Result<(), String> {
        if i + n <= args.len() {
            Ok(())
        } else {
            Err(format!("BADARGS truncated element at {}", i))
        }
    };
    while i < args.len() {
        match args[i] {
            0 => {
                need(i, 3)?;
                script.push(StreamElement::Item((args[i + 1] as u64, args[i + 2] as u64)));
                i += 3;
            }
            1 => {
                need(i, 4)?;
                script.push(StreamElement::Timestamped(
                    (args[i + 1] as u64, args[i + 2] as u64),
                    args[i + 3] as i64,
                ));
                i += 4;
            }
            2 => {
                need(i, 2)?;
                script.push(StreamElement::Watermark(args[i + 1] as i64));
                i += 2;
            }
            3 => {
                script.push(StreamElement::FlushBatch);
                i += 1;
            }
            4 => {
                script.push(StreamElement::Terminate);
                i += 1;
            }
            5 => {
                script.push(StreamElement::FlushAndRestart);
                i += 1;
            }
            t => return Err(format!("BADARGS element tag {} at {}", t, i)),
        }
    }
    Ok(Parsed { params, script })
}

// ------------------------------------------------------------------------------------------
// output formatting
// ------------------------------------------------------------------------------------------

pub(crate) trait Pay {
    fn pay(&self) -> String;
}

impl Pay for u64 {
    fn pay(&self) -> String {
        self.to_string()
    }
}

impl Pay for Vec<u64> {
    fn pay(&self) -> String {
        let v: Vec<String> = self.iter().map(|x| x.to_string()).collect();
        format!("[{}]", v.join(","))
    }
}

impl<T: Pay> Pay for (u64, T) {
    fn pay(&self) -> String {
        format!("{}:{}", self.0, self.1.pay())
    }
}

pub(crate) fn fmt_el<T: Pay>(el: &StreamElement<T>) -> String {
    match el {
        StreamElement::Item(v) => format!("I({})", v.pay()),
        StreamElement::Timestamped(v, ts) => format!("T({}@{})", v.pay(), ts),
        StreamElement::Watermark(ts) => format!("W({})", ts),
        StreamElement::FlushBatch => "B".into(),
        StreamElement::FlushAndRestart => "F".into(),
        StreamElement::Terminate => "E".into(),
    }
}

pub(crate) fn fmt_wr<T: Pay>(r: &WindowResult<T>) -> String {
    match r {
        WindowResult::Item(v) => format!("I({})", v.pay()),
        WindowResult::Timestamped(v, ts) => format!("T({}@{})", v.pay(), ts),
    }
}

/// Call `next()` until `Terminate` (inclusive), at most `8 * script_len + 8` times.
pub(crate) fn drive<Op>(mut op: Op, script_len: usize) -> String
where
    Op: Operator,
    Op::Out: Pay,
{
    let mut out = Vec::new();
    let budget = 8 * script_len + 8;
    let mut ended = false;
    for _ in 0..budget {
        let el = op.next();
        out.push(fmt_el(&el));
        if matches!(el, StreamElement::Terminate) {
            ended = true;
            break;
        }
    }
    if !ended {
        out.push("OVERRUN".into());
    }
    out.join(" ")
}

/// Feed every script element to `process` and print the results of each call.
pub(crate) fn drive_mgr<M>(mut mgr: M, script: Vec<StreamElement<u64>>) -> String
where
    M: WindowManager<In = u64, Out = Vec<u64>>,
{
    let mut calls = Vec::new();
    for el in script {
        let res: Vec<String> = mgr.process(el).into_iter().map(|r| fmt_wr(&r)).collect();
        calls.push(res.join(" "));
    }
    calls.join(" | ")
}

// ------------------------------------------------------------------------------------------
// user functions
// ------------------------------------------------------------------------------------------

pub(crate) fn user_fold(acc: &mut u64, x: u64) {
    *acc = acc.wrapping_mul(31).wrapping_add(x).wrapping_add(1)
}

/// Window accumulator collecting its inputs in arrival order.
#[derive(Clone, Default)]
pub(crate) struct VecAcc(Vec<u64>);

impl WindowAccumulator for VecAcc {
    type In = u64;
    type Out = Vec<u64>;

    fn process(&mut self, el: u64) {
        self.0.push(el);
    }

    fn output(self) -> Vec<u64> {
        self.0
    }
}

// ------------------------------------------------------------------------------------------
// join scripts (third batch; used by ops_join_hash.rs / ops_join_sm.rs, no kind of this file)
// ------------------------------------------------------------------------------------------

pub(crate) type JoinIn = crate::operator::start::BinaryElement<(u64, u64), (u64, u64)>;
pub(crate) type JoinOut = (u64, (Option<(u64, u64)>, Option<(u64, u64)>));

pub(crate) struct ParsedJoin {
    /// 0 = JoinLocalHash, 1 = JoinLocalSortMerge
    pub(crate) algo: i128,
    /// 0 = Inner, 1 = Left, 2 = Outer
    pub(crate) variant: i128,
    pub(crate) script: Vec<StreamElement<JoinIn>>,
}

impl ParsedJoin {
    /// (#Left items + 1) * (#Right items + 1) of the whole script: upper bound of the tuples a
    /// join may emit on it, added to the call budget.
    pub(crate) fn max_tuples(&self) -> usize {
        use crate::operator::start::BinaryElement;
        let l = self
            .script
            .iter()
            .filter(|e| matches!(e, StreamElement::Item(BinaryElement::Left(_))))
            .count();
        let r = self
            .script
            .iter()
            .filter(|e| matches!(e, StreamElement::Item(BinaryElement::Right(_))))
            .count();
        (l + 1) * (r + 1)
    }
}

/// `[2, algo, variant, element*]` with the join element tags
/// `10 key id` Left, `11 key id` Right, `12` LeftEnd, `13` RightEnd, `3`/`4`/`5` as usual and
/// `2 ts` Watermark (the join operators panic on it). The tags 0 and 1 have no meaning here.
pub(crate) fn parse_join(args: &[i128]) -> Result<ParsedJoin, String> {
    use crate::operator::start::BinaryElement;
    if args.is_empty() {
        return Err("BADARGS empty".into());
    }
    if args[0] != 2 {
        return Err(format!("BADARGS nparams={} expected=2", args[0]));
    }
    if args.len() < 3 {
        return Err("BADARGS truncated params".into());
    }
    let (algo, variant) = (args[1], args[2]);
    if !(0..=1).contains(&algo) {
        return Err(format!("BADARGS join algo {}", algo));
    }
    if !(0..=2).contains(&variant) {
        return Err(format!("BADARGS join variant {}", variant));
    }
    let mut script = Vec::new();
    let mut i = 3;
    let need = |i: usize, n: usize| -> Result<(), String> {
        if i + n <= args.len() {
            Ok(())
        } else {
            Err(format!("BADARGS truncated element at {}", i))
        }
    };
    while i < args.len() {
        match args[i] {
            10 => {
                need(i, 3)?;
                script.push(StreamElement::Item(BinaryElement::Left((
                    args[i + 1] as u64,
                    args[i + 2] as u64,
                ))));
                i += 3;
            }
            11 => {
                need(i, 3)?;
                script.push(StreamElement::Item(BinaryElement::Right((
                    args[i + 1] as u64,
                    args[i + 2] as u64,
                ))));
                i += 3;
            }
            12 => {
                script.push(StreamElement::Item(BinaryElement::LeftEnd));
                i += 1;
            }
            13 => {
                script.push(StreamElement::Item(BinaryElement::RightEnd));
                i += 1;
            }
            2 => {
                need(i, 2)?;
                script.push(StreamElement::Watermark(args[i + 1] as i64));
                i += 2;
            }
            3 => {
                script.push(StreamElement::FlushBatch);
                i += 1;
            }
            4 => {
                script.push(StreamElement::Terminate);
                i += 1;
            }
            5 => {
                script.push(StreamElement::FlushAndRestart);
                i += 1;
            }
            t => return Err(format!("BADARGS element tag {} at {}", t, i)),
        }
    }
    Ok(ParsedJoin {
        algo,
        variant,
        script,
    })
}

/// `J(key;lid;rid)` with `-` for a missing side.
pub(crate) fn fmt_join_el(el: &StreamElement<JoinOut>) -> String {
    fn tuple(v: &JoinOut) -> String {
        let side = |s: &Option<(u64, u64)>| match s {
            Some((_, id)) => id.to_string(),
            None => "-".to_string(),
        };
        format!("J({};{};{})", v.0, side(&(v.1).0), side(&(v.1).1))
    }
    match el {
        StreamElement::Item(v) => tuple(v),
        StreamElement::Timestamped(v, ts) => format!("{}@{}", tuple(v), ts),
        StreamElement::Watermark(ts) => format!("W({})", ts),
        StreamElement::FlushBatch => "B".into(),
        StreamElement::FlushAndRestart => "F".into(),
        StreamElement::Terminate => "E".into(),
    }
}

/// Same as `drive` for the join operators (their output has its own token format). `extra` is
/// added to the usual call budget: a join legitimately emits up to #left * #right tuples.
pub(crate) fn drive_join<Op>(mut op: Op, script_len: usize, extra: usize) -> String
where
    Op: Operator<Out = JoinOut>,
{
    let mut out = Vec::new();
    let budget = 8 * script_len + 8 + extra;
    let mut ended = false;
    for _ in 0..budget {
        let el = op.next();
        out.push(fmt_join_el(&el));
        if matches!(el, StreamElement::Terminate) {
            ended = true;
            break;
        }
    }
    if !ended {
        out.push("OVERRUN".into());
    }
    out.join(" ")
}

// ------------------------------------------------------------------------------------------
// entry point
// ------------------------------------------------------------------------------------------

fn run(name: &str, args: &[i128]) -> Result<Option<String>, String> {
    Ok(Some(match name {
        "fold" => {
            let p = parse(args, 0)?;
            let n = p.script.len();
            let f = |acc: &mut u64, x: u64| {
                *acc = acc.wrapping_mul(31).wrapping_add(x).wrapping_add(1)
            };
            drive(super::fold::Fold::new(ScriptOp::new(p.unkeyed()), 0u64, f), n)
        }
        "keyed_fold" => {
            let p = parse(args, 0)?;
            let n = p.script.len();
            let f = |acc: &mut u64, x: u64| {
                *acc = acc.wrapping_mul(31).wrapping_add(x).wrapping_add(1)
            };
            drive(
                super::keyed_fold::KeyedFold::new(ScriptOp::new(p.script), 0u64, f),
                n,
            )
        }
        "rich_map" => {
            // keyed rich_map with a counting closure: output value = (calls made so far on this key's clone of the
            // function, this one included) * 2^32 + input value
            let p = parse(args, 0)?;
            let n = p.script.len();
            let mut calls = 0u64;
            let f = move |(_k, v): (&u64, u64)| {
                calls += 1;
                (calls << 32).wrapping_add(v & 0xffff_ffff)
            };
            drive(super::rich_map::RichMap::new(ScriptOp::new(p.script), f), n)
        }
        "reorder" => {
            let p = parse(args, 0)?;
            let n = p.script.len();
            drive(super::reorder::Reorder::new(ScriptOp::new(p.unkeyed())), n)
        }
        "mgr_count" => {
            let p = parse(args, 3)?;
            let descr = CountWindow::new(p.params[0] as usize, p.params[1] as usize, p.params[2] != 0);
            let mgr = <CountWindow as WindowDescription<u64>>::build(&descr, VecAcc::default());
            drive_mgr(mgr, p.unkeyed())
        }
        "mgr_event_time" => {
            let p = parse(args, 2)?;
            let descr = EventTimeWindow::sliding(p.params[0] as i64, p.params[1] as i64);
            let mgr = <EventTimeWindow as WindowDescription<u64>>::build(&descr, VecAcc::default());
            drive_mgr(mgr, p.unkeyed())
        }
        _ => return Ok(None),
    }))
}

#[no_mangle]
pub fn verif_replay_ops(name: &str, args: &[i128]) -> Option<String> {
    match run(name, args) {
        Ok(r) => r,
        Err(e) => Some(e),
    }
}
