// target: src/network/sync/remote.rs
// Native replay of the TCP framing (C02): kind `framing`.
// args = [piece, block, host, prev_block, nmsgs, (replica, payload_items)*]
//   Each message is a batch of `payload_items` Items (values 0..payload_items) for ReceiverEndpoint
//   (Coord(block, host, replica), prev_block); all are written back to back with the real `remote_send` into one byte
//   stream, which is then read back with the real `remote_recv` through a reader that hands out at most `piece`
//   bytes per `read()` call (what a socket may do).
// Output: one token per received message `replica:items:ok` (ok = 1 if the message equals the one sent), or `NONE`
//   if remote_recv returned None; then `REST n` = bytes left unread.
#![allow(dead_code, unused_imports)]
use super::*;
use crate::network::{BlockCoord, Coord, DemuxCoord, NetworkMessage, ReceiverEndpoint};
use crate::operator::StreamElement;
use std::io::Read;

struct Pieces {
    data: Vec<u8>,
    pos: usize,
    piece: usize,
}

impl Read for Pieces {
    fn read(&mut self, buf: &mut [u8]) -> std::io::Result<usize> {
        let n = buf.len().min(self.piece).min(self.data.len() - self.pos);
        buf[..n].copy_from_slice(&self.data[self.pos..self.pos + n]);
        self.pos += n;
        Ok(n)
    }
}

#[no_mangle]
pub fn verif_replay_net_remote(name: &str, a: &[i128]) -> Option<String> {
    if name != "framing" {
        return None;
    }
    if a.len() < 5 || a.len() != 5 + 2 * a[4] as usize || a[0] < 1 {
        return Some(format!("BADARGS framing {:?}", a));
    }
    let (piece, block, host, prev) = (a[0] as usize, a[1] as u64, a[2] as u64, a[3] as u64);
    let mut wire: Vec<u8> = Vec::new();
    let mut sent = Vec::new();
    for m in a[5..].chunks(2) {
        let dest = ReceiverEndpoint::new(Coord::new(block, host, m[0] as u64), prev);
        let items: Vec<StreamElement<u64>> = (0..m[1] as u64).map(StreamElement::Item).collect();
        let msg = NetworkMessage::new_batch(items, Coord::new(7, 0, 0));
        remote_send(msg.clone(), dest, &mut wire, "verif");
        sent.push((dest, msg));
    }
    let mut reader = Pieces { data: wire, pos: 0, piece };
    let demux = DemuxCoord::new(Coord::new(prev, 0, 0), Coord::new(block, host, 0));
    let mut toks = Vec::new();
    for (dest, msg) in sent.iter() {
        match remote_recv::<u64, _>(demux, &mut reader, "verif") {
            None => toks.push("NONE".to_string()),
            Some((d, m)) => toks.push(format!(
                "{}:{}:{}",
                d.coord.replica_id,
                m.num_items(),
                if d == *dest && m == *msg { 1 } else { 0 }
            )),
        }
    }
    toks.push(format!("REST {}", reader.data.len() - reader.pos));
    Some(toks.join(" "))
}
