// target: src/operator/iteration/iteration_end.rs
// Native replay driver for the IterationEnd operator (see replay/SPEC.md, sixth batch): kind
// `iteration_end`.
//
// args: [0, element*]   (unkeyed u64 payloads = the DeltaUpdates, usual element tags)
// Topology as in net_end.rs: RuntimeConfig::local(1); the IterationEnd replica Coord(5,0,0) is
// connected (TypeId of u64, not fragile) to the leader Coord(4,0,0), so that the real
// `IterationEnd::setup` finds exactly one replica of block 4 through `network.replicas(4)` and gets
// its sender with `network.get_sender(ReceiverEndpoint::new(leader, 5))`. Then
// `IterationEnd::<u64, _>::new(ScriptOp, 4)`, `setup` (BatchMode::fixed(1024), unused by the
// operator), `next()` until Terminate (budget 8*len(script)+8 calls, then OVERRUN).
// The leader's receiver (`get_receiver(ReceiverEndpoint::new(Coord(4,0,0), 5))`) is drained with
// try_recv after *every* next() call, not only at the end: the real channel is bounded and next()
// would block for ever on longer scripts; the order of the messages is unaffected.
// Output: `<what next() returned> || <what the leader received>`; the left part uses the operator
// tokens with the unit payload printed as `I()` (`T(@ts)`), the right part is flattened over the
// received NetworkMessages: I(v) .. E (a message whose sender() is not Coord(5,0,0) is followed by
// the token `!sender=b.h.r`). An empty side prints nothing (`E || ` cannot happen: Terminate is
// always forwarded). Timestamped / Watermark elements hit the operator's `unreachable!()` -> PANIC.
#![allow(dead_code, unused_imports, unused_variables, clippy::all)]

use std::any::TypeId;

use super::*;
use crate::network::{NetworkReceiver, NetworkTopology};
use crate::operator::verif_replay_ops::{fmt_el, parse, Pay, ScriptOp};
use crate::{BatchMode, RuntimeConfig};

const LEADER_BLOCK: u64 = 4;
const END_BLOCK: u64 = 5;

fn fmt_unit(el: &StreamElement<()>) -> String {
    match el {
        StreamElement::Item(()) => "I()".into(),
        StreamElement::Timestamped((), ts) => format!("T(@{})", ts),
        StreamElement::Watermark(ts) => format!("W({})", ts),
        StreamElement::FlushBatch => "B".into(),
        StreamElement::FlushAndRestart => "F".into(),
        StreamElement::Terminate => "E".into(),
    }
}

fn drain(rx: &NetworkReceiver<u64>, me: Coord, received: &mut Vec<String>) {
    while let Ok(msg) = rx.try_recv() {
        let sender = msg.sender();
        received.extend(msg.into_iter().map(|e| fmt_el(&e)));
        if sender != me {
            received.push(format!(
                "!sender={}.{}.{}",
                sender.block_id, sender.host_id, sender.replica_id
            ));
        }
    }
}

fn run(args: &[i128]) -> Result<String, String> {
    let p = parse(args, 0)?;
    let script = p.unkeyed();
    let n = script.len();

    let me = Coord::new(END_BLOCK, 0, 0);
    let leader = Coord::new(LEADER_BLOCK, 0, 0);

    let mut topology = NetworkTopology::new(RuntimeConfig::local(1).unwrap());
    topology.connect(me, leader, TypeId::of::<u64>(), false);
    topology.build();

    let mut end = IterationEnd::<u64, _>::new(ScriptOp::new(script), LEADER_BLOCK);
    {
        let mut metadata = ExecutionMetadata {
            coord: me,
            replicas: vec![me],
            global_id: 0,
            prev: vec![],
            network: &mut topology,
            batch_mode: BatchMode::fixed(1024),
        };
        end.setup(&mut metadata);
    }
    let rx = topology.get_receiver::<u64>(ReceiverEndpoint::new(leader, END_BLOCK));

    let mut returned = Vec::new();
    let mut received = Vec::new();
    let budget = 8 * n + 8;
    let mut ended = false;
    for _ in 0..budget {
        let el = end.next();
        returned.push(fmt_unit(&el));
        drain(&rx, me, &mut received);
        if matches!(el, StreamElement::Terminate) {
            ended = true;
            break;
        }
    }
    drain(&rx, me, &mut received);
    if !ended {
        returned.push("OVERRUN".into());
    }
    Ok(format!("{} || {}", returned.join(" "), received.join(" ")))
}

#[no_mangle]
pub fn verif_replay_iter_end(name: &str, args: &[i128]) -> Option<String> {
    if name != "iteration_end" {
        return None;
    }
    Some(match run(args) {
        Ok(s) => s,
        Err(e) => e,
    })
}
