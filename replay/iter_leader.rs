// target: src/operator/iteration/leader.rs
// Native replay driver for the IterationLeader (see replay/SPEC.md, fifth batch): kind `leader`.
//
// args: [nends, nfeedback, max_iter, init, nrounds, round*]
//       round = cond(0|1), (end_index, delta) * nends      (deltas in the order they are sent)
//
// Topology: RuntimeConfig::local(1); IterationEnd replicas Coord(5,0,0..nends) connected (TypeId of
// u64 = the DeltaUpdate, not fragile) to the leader Coord(4,0,0); the leader connected (TypeId of
// StateFeedback<u64> = (IterationResult, u64), not fragile) to the feedback replicas
// Coord(6,0,0..nfeedback). The leader is
//   IterationLeader::new(init as u64, max_iter, f, loop_condition, Arc::new(AtomicUsize::new(5)))
// with f(s, d) = s*31 + d + 1 (wrapping) and a `loop_condition` that returns the scripted `cond` of
// the round it is called in (k-th call -> cond of round k, shared call counter; beyond the script ->
// false), followed by the real `setup` (get_senders, Start::single(5, None), prev_replicas) with
// BatchMode::fixed(1024).
//
// Threads:
//  * worker `verif-leader`: calls `IterationLeader::next()` until Terminate (inclusive), at most
//    4*nrounds+8 times (then OVERRUN), and streams the tokens to the calling thread;
//  * driver `verif-ends`: plays the IterationEnd replicas and the loop body. For every scripted round
//    it sends the deltas (`NetworkMessage::new_single(Item(delta), Coord(5,0,end_index))`) through
//    the real senders, then waits until every feedback receiver got one message and records it; after
//    the last round it sends `Terminate` from every end, waits for the worker to finish and drains the
//    feedback receivers;
//  * the calling thread collects the tokens with a deadline of 10 s (env VERIF_REPLAY_WATCHDOG_MS
//    overrides); when it expires the tokens seen so far are printed followed by `TIMEOUT`.
//
// Waiting for the feedback of a round ends when (a) every receiver has one message, or (b) the worker
// has finished / is unwinding (the leader cannot send any more: what is still in the channels is
// collected, the rest prints `-`), or (c) some receiver got its message but another one did not
// within a grace period of 2 s (env VERIF_REPLAY_FB_GRACE_MS; the leader sends to all the receivers
// back to back, so the others are not going to get one: `-`), or (d) the global deadline expires
// (`-` for everything still missing, and the driver gives up: later rounds print `-` as well).
// The grace periods actually spent in (c) extend the global deadline, so a leader that skips a
// receiver in every round still runs to the end of the script instead of ending in TIMEOUT.
//
// Output: `OUT I(s) F .. E ; FB C(s) C(s) | F(s) F(s) | ...` exactly as in the SPEC, always with one
// group per scripted round. Additions for situations the SPEC does not cover (never printed for a
// well-behaved leader):
//  * a feedback message that is not a single `Item` prints its elements joined with `+`, non-Item
//    elements as `?W`/`?B`/`?F`/`?E`/`?T(..)`;
//  * feedback messages left in the channels after the worker finished (a leader that sent more than
//    one message per round) are appended as a last group ` | EXTRA j:C(s) j:F(s) ...`.
// A panic inside the leader (or its Start) is propagated: the driver prints PANIC.
#![allow(dead_code, unused_imports, unused_variables, clippy::all)]

use std::any::TypeId;
use std::sync::atomic::{AtomicBool, AtomicU64, AtomicUsize, Ordering};
use std::sync::mpsc;
use std::sync::{Arc, Mutex};
use std::time::{Duration, Instant};

use super::*;
use crate::network::{
    Coord, NetworkMessage, NetworkReceiver, NetworkSender, NetworkTopology, ReceiverEndpoint,
};
use crate::operator::iteration::{IterationResult, StateFeedback};
use crate::operator::verif_replay_ops::fmt_el;
use crate::{BatchMode, RuntimeConfig};

const WORKER: &str = "verif-leader";
const LEADER_BLOCK: u64 = 4;
const END_BLOCK: u64 = 5;
const FEEDBACK_BLOCK: u64 = 6;

/// Set by the panic hook as soon as the worker thread starts panicking.
static PANICKING: AtomicBool = AtomicBool::new(false);

struct Round {
    cond: bool,
    /// (end_index, delta) in sending order
    deltas: Vec<(usize, u64)>,
}

/// Sets the flag when dropped (normal exit or unwinding of the worker).
struct DoneGuard(Arc<AtomicBool>);
impl Drop for DoneGuard {
    fn drop(&mut self) {
        self.0.store(true, Ordering::SeqCst);
    }
}

fn env_ms(name: &str, default: u64) -> u64 {
    std::env::var(name)
        .ok()
        .and_then(|s| s.parse::<u64>().ok())
        .unwrap_or(default)
}

fn parse_rounds(args: &[i128], nends: usize, nrounds: usize) -> Result<Vec<Round>, String> {
    let per = 1 + 2 * nends;
    let body = &args[5..];
    if body.len() != per * nrounds {
        return Err(format!(
            "BADARGS leader: expected {} values for {} rounds of {} ends, got {}",
            per * nrounds,
            nrounds,
            nends,
            body.len()
        ));
    }
    let mut out = Vec::new();
    for (k, r) in body.chunks(per).enumerate() {
        if r[0] != 0 && r[0] != 1 {
            return Err(format!("BADARGS leader: cond {} in round {}", r[0], k));
        }
        let mut deltas = Vec::new();
        for p in r[1..].chunks(2) {
            if p[0] < 0 || p[0] as usize >= nends {
                return Err(format!("BADARGS leader: end index {} in round {}", p[0], k));
            }
            deltas.push((p[0] as usize, p[1] as u64));
        }
        out.push(Round {
            cond: r[0] == 1,
            deltas,
        });
    }
    Ok(out)
}

fn fmt_feedback(msg: NetworkMessage<StateFeedback<u64>>) -> String {
    let toks: Vec<String> = msg
        .into_iter()
        .map(|el| match el {
            StreamElement::Item((IterationResult::Continue, s)) => format!("C({})", s),
            StreamElement::Item((IterationResult::Finished, s)) => format!("F({})", s),
            StreamElement::Timestamped((r, s), ts) => format!(
                "?T({}({})@{})",
                if matches!(r, IterationResult::Continue) {
                    "C"
                } else {
                    "F"
                },
                s,
                ts
            ),
            StreamElement::Watermark(ts) => format!("?W({})", ts),
            StreamElement::FlushBatch => "?B".into(),
            StreamElement::FlushAndRestart => "?F".into(),
            StreamElement::Terminate => "?E".into(),
        })
        .collect();
    if toks.is_empty() {
        "?empty".into()
    } else {
        toks.join("+")
    }
}

fn render(out: &[String], fb: &[Vec<Option<String>>], extra: &[String]) -> String {
    let mut groups: Vec<String> = fb
        .iter()
        .map(|g| {
            g.iter()
                .map(|x| x.clone().unwrap_or_else(|| "-".into()))
                .collect::<Vec<_>>()
                .join(" ")
        })
        .collect();
    if !extra.is_empty() {
        groups.push(format!("EXTRA {}", extra.join(" ")));
    }
    format!("OUT {} ; FB {}", out.join(" "), groups.join(" | "))
        .trim_end()
        .to_string()
}

fn run(args: &[i128]) -> Result<String, String> {
    if args.len() < 5 || args[0] < 1 || args[1] < 0 || args[2] < 0 || args[4] < 0 {
        return Err(
            "BADARGS leader expects [nends>=1, nfeedback>=0, max_iter>=0, init, nrounds, round*]"
                .into(),
        );
    }
    let nends = args[0] as usize;
    let nfeedback = args[1] as usize;
    let max_iter = args[2] as usize;
    let init = args[3] as u64;
    let nrounds = args[4] as usize;
    let rounds = parse_rounds(args, nends, nrounds)?;
    let budget = 4 * nrounds + 8;

    // --- topology (what FakeNetworkTopology does, with the real TypeIds)
    let mut topology = NetworkTopology::new(RuntimeConfig::local(1).unwrap());
    let leader_coord = Coord::new(LEADER_BLOCK, 0, 0);
    let delta_typ = TypeId::of::<u64>();
    let feedback_typ = TypeId::of::<StateFeedback<u64>>();
    let mut prev = Vec::new();
    for i in 0..nends as u64 {
        let from = Coord::new(END_BLOCK, 0, i);
        topology.connect(from, leader_coord, delta_typ, false);
        prev.push((from, delta_typ));
    }
    for j in 0..nfeedback as u64 {
        topology.connect(
            leader_coord,
            Coord::new(FEEDBACK_BLOCK, 0, j),
            feedback_typ,
            false,
        );
    }
    topology.build();

    // every end replica has its own handle on the (single) channel towards (leader, END_BLOCK)
    let mut end_senders: Vec<(Coord, NetworkSender<u64>)> = Vec::new();
    for i in 0..nends as u64 {
        end_senders.push((
            Coord::new(END_BLOCK, 0, i),
            topology.get_sender(ReceiverEndpoint::new(leader_coord, END_BLOCK)),
        ));
    }
    let mut feedback_receivers: Vec<NetworkReceiver<StateFeedback<u64>>> = Vec::new();
    for j in 0..nfeedback as u64 {
        feedback_receivers.push(topology.get_receiver(ReceiverEndpoint::new(
            Coord::new(FEEDBACK_BLOCK, 0, j),
            LEADER_BLOCK,
        )));
    }

    // --- the real leader
    let calls = Arc::new(AtomicUsize::new(0));
    let script: Arc<Vec<bool>> = Arc::new(rounds.iter().map(|r| r.cond).collect());
    let loop_condition = {
        let calls = calls.clone();
        let script = script.clone();
        move |_s: &mut u64| -> bool {
            let k = calls.fetch_add(1, Ordering::SeqCst);
            script.get(k).copied().unwrap_or(false)
        }
    };
    let mut leader = IterationLeader::new(
        init,
        max_iter,
        |s: &mut u64, d: u64| *s = s.wrapping_mul(31).wrapping_add(d).wrapping_add(1),
        loop_condition,
        Arc::new(AtomicUsize::new(END_BLOCK as usize)),
    );
    {
        let mut metadata = ExecutionMetadata {
            coord: leader_coord,
            replicas: vec![leader_coord],
            global_id: 0,
            prev: prev.clone(),
            network: &mut topology,
            batch_mode: BatchMode::fixed(1024),
        };
        leader.setup(&mut metadata);
    }

    let watchdog_ms = env_ms("VERIF_REPLAY_WATCHDOG_MS", 10_000);
    let grace = Duration::from_millis(env_ms("VERIF_REPLAY_FB_GRACE_MS", 2_000));
    // the grace periods the driver had to sit through do not count against the watchdog
    let grace_spent = Arc::new(AtomicU64::new(0));
    let base_deadline = Instant::now() + Duration::from_millis(watchdog_ms);
    let deadline = {
        let grace_spent = grace_spent.clone();
        move || base_deadline + Duration::from_millis(grace_spent.load(Ordering::SeqCst))
    };

    // --- worker: the real leader, polled on its own thread so that the watchdog can give up
    let prev_hook = std::panic::take_hook();
    std::panic::set_hook(Box::new(move |info| {
        if std::thread::current().name() == Some(WORKER) {
            PANICKING.store(true, Ordering::SeqCst);
            eprintln!("verif-leader worker: {}", info);
        } else {
            prev_hook(info);
        }
    }));
    let leader_done = Arc::new(AtomicBool::new(false));
    let (tok_tx, tok_rx) = mpsc::channel::<String>();
    let worker = {
        let leader_done = leader_done.clone();
        std::thread::Builder::new()
            .name(WORKER.into())
            .spawn(move || {
                // declared before `leader`: dropped after it, i.e. the flag is raised when the
                // leader (and its senders/receiver) is gone
                let _guard = DoneGuard(leader_done);
                let mut leader = leader;
                let mut ended = false;
                for _ in 0..budget {
                    let el = leader.next();
                    let _ = tok_tx.send(fmt_el(&el));
                    if matches!(el, StreamElement::Terminate) {
                        ended = true;
                        break;
                    }
                }
                if !ended {
                    let _ = tok_tx.send("OVERRUN".into());
                }
                let _ = tok_tx.send("\u{0}DONE".into());
            })
            .unwrap()
    };

    // --- driver: the IterationEnd replicas and the loop body
    let fb: Arc<Mutex<Vec<Vec<Option<String>>>>> =
        Arc::new(Mutex::new(vec![vec![None; nfeedback]; nrounds]));
    let extra: Arc<Mutex<Vec<String>>> = Arc::new(Mutex::new(Vec::new()));
    let (drv_tx, drv_rx) = mpsc::channel::<()>();
    let driver = {
        let fb = fb.clone();
        let extra = extra.clone();
        let leader_done = leader_done.clone();
        let deadline = deadline.clone();
        let grace_spent = grace_spent.clone();
        std::thread::Builder::new()
            .name("verif-ends".into())
            .spawn(move || {
                let finished =
                    || leader_done.load(Ordering::SeqCst) || PANICKING.load(Ordering::SeqCst);
                let mut gave_up = false;
                for (k, round) in rounds.iter().enumerate() {
                    if gave_up {
                        break;
                    }
                    for &(e, d) in &round.deltas {
                        let (coord, tx) = &end_senders[e];
                        // the receiver may be gone already (leader terminated): not an error of
                        // the driver
                        let _ = tx.send(NetworkMessage::new_single(StreamElement::Item(d), *coord));
                    }
                    let mut got = vec![false; nfeedback];
                    let mut first_at: Option<Instant> = None;
                    loop {
                        // read the flag *before* polling: if it is set, everything the leader
                        // sent is already in the channels
                        let fin = finished();
                        let mut progress = false;
                        for j in 0..nfeedback {
                            if got[j] {
                                continue;
                            }
                            if let Ok(msg) = feedback_receivers[j].try_recv() {
                                fb.lock().unwrap()[k][j] = Some(fmt_feedback(msg));
                                got[j] = true;
                                progress = true;
                                first_at.get_or_insert_with(Instant::now);
                            }
                        }
                        if got.iter().all(|&g| g) || fin {
                            break;
                        }
                        let now = Instant::now();
                        if now >= deadline() {
                            gave_up = true;
                            break;
                        }
                        if let Some(t) = first_at {
                            if now.duration_since(t) >= grace {
                                grace_spent.fetch_add(grace.as_millis() as u64, Ordering::SeqCst);
                                break;
                            }
                        }
                        if !progress {
                            std::thread::sleep(Duration::from_micros(500));
                        }
                    }
                }
                if !gave_up {
                    for (coord, tx) in &end_senders {
                        let _ = tx.send(NetworkMessage::new_single(
                            StreamElement::Terminate,
                            *coord,
                        ));
                    }
                    // leftovers: only meaningful once the leader cannot send any more
                    while !finished() && Instant::now() < deadline() {
                        std::thread::sleep(Duration::from_micros(500));
                    }
                    if finished() {
                        let mut ex = extra.lock().unwrap();
                        for j in 0..nfeedback {
                            while let Ok(msg) = feedback_receivers[j].try_recv() {
                                ex.push(format!("{}:{}", j, fmt_feedback(msg)));
                            }
                        }
                    }
                }
                let _ = drv_tx.send(());
                // keep the receivers (and the senders) alive: a leader that is still sending must
                // block / time out, not fail with a disconnected channel
                std::mem::forget(feedback_receivers);
                std::mem::forget(end_senders);
            })
            .unwrap()
    };

    let snapshot = |out: &[String]| -> String {
        let fb = fb.lock().unwrap().clone();
        let extra = extra.lock().unwrap().clone();
        render(out, &fb, &extra)
    };

    let mut out: Vec<String> = Vec::new();
    loop {
        let now = Instant::now();
        let dl = deadline();
        let left = if dl > now {
            dl - now
        } else {
            Duration::from_millis(0)
        };
        match tok_rx.recv_timeout(left) {
            Ok(t) if t == "\u{0}DONE" => break,
            Ok(t) => out.push(t),
            Err(mpsc::RecvTimeoutError::Timeout) => {
                if Instant::now() < deadline() {
                    // the deadline moved (grace periods) while we were waiting
                    continue;
                }
                if PANICKING.load(Ordering::SeqCst) {
                    // the worker is unwinding: that is a PANIC, not a TIMEOUT
                    match worker.join() {
                        Err(p) => std::panic::resume_unwind(p),
                        Ok(()) => panic!("verif: leader worker panicked"),
                    }
                }
                out.push("TIMEOUT".into());
                // give the driver a moment to notice the deadline and record what it has
                let _ = drv_rx.recv_timeout(Duration::from_millis(200));
                let s = snapshot(&out);
                // leave the stuck threads (and the channels they wait on) alone: the process exits
                // right after the result is printed
                std::mem::forget(topology);
                return Ok(s);
            }
            Err(mpsc::RecvTimeoutError::Disconnected) => {
                // the worker died without finishing: propagate its panic
                match worker.join() {
                    Err(p) => std::panic::resume_unwind(p),
                    Ok(()) => panic!("verif: leader worker vanished"),
                }
            }
        }
    }
    if let Err(p) = worker.join() {
        std::panic::resume_unwind(p);
    }
    // the worker is done, so the driver only has bounded waits left (grace periods at most)
    let now = Instant::now();
    let dl = deadline();
    let left = if dl > now {
        dl - now
    } else {
        Duration::from_millis(0)
    };
    let _ = drv_rx.recv_timeout(left + Duration::from_millis(200));
    drop(driver);
    let s = snapshot(&out);
    std::mem::forget(topology);
    Ok(s)
}

#[no_mangle]
pub fn verif_replay_iter_leader(name: &str, args: &[i128]) -> Option<String> {
    match name {
        "leader" => Some(match run(args) {
            Ok(s) => s,
            Err(e) => e,
        }),
        _ => None,
    }
}
