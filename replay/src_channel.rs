// target: src/operator/source/channel.rs
// Native replay of ChannelSource (C15 / C18): kind `channel_source`.
// args = [n, delay_ms_1 .. delay_ms_n, tail_ms]: item i (value i) is sent `delay_ms_i` milliseconds after the previous one
// by a helper thread (0 = immediately), then the sender is dropped after `tail_ms`. The source is polled with next() until Terminate.
// Output tokens: I(v) B F E (Item, FlushBatch, FlushAndRestart, Terminate), `OVERRUN` after 64*n+64 calls.
#![allow(dead_code, unused_imports)]
use super::*;
use std::time::Duration;

#[no_mangle]
pub fn verif_replay_src_channel(name: &str, a: &[i128]) -> Option<String> {
    if name != "channel_source" {
        return None;
    }
    if a.is_empty() || a.len() != 2 + a[0] as usize {
        return Some(format!("BADARGS channel_source {:?}", a));
    }
    let delays: Vec<u64> = a[1..a.len() - 1].iter().map(|d| *d as u64).collect();
    let tail = a[a.len() - 1] as u64;
    let (tx, mut src) = ChannelSource::<u64>::new(16);
    let h = std::thread::spawn(move || {
        for (i, d) in delays.iter().enumerate() {
            if *d > 0 {
                std::thread::sleep(Duration::from_millis(*d));
            }
            let _ = tx.send(i as u64 + 1);
        }
        if tail > 0 {
            std::thread::sleep(Duration::from_millis(tail));
        }
        drop(tx);
    });
    let mut toks = Vec::new();
    let budget = 64 * a[0] as usize + 64;
    let mut ended = false;
    for _ in 0..budget {
        let t = match src.next() {
            StreamElement::Item(v) => format!("I({})", v),
            StreamElement::FlushBatch => "B".to_string(),
            StreamElement::FlushAndRestart => "F".to_string(),
            StreamElement::Terminate => "E".to_string(),
            _ => "?".to_string(),
        };
        let end = t == "E";
        toks.push(t);
        if end {
            ended = true;
            break;
        }
    }
    if !ended {
        toks.push("OVERRUN".into());
    }
    let _ = h.join();
    Some(toks.join(" "))
}
