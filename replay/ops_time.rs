// target: src/operator/mod.rs
// Native replay of the clock-driven window managers (session / processing time): the model's symbolic
// clock is reproduced with real sleeps (one tick = TICK_MS milliseconds), so only witnesses whose timing is
// away from a window boundary reproduce reliably.
#![allow(dead_code, unused_imports)]
use super::verif_replay_ops::{fmt_wr, VecAcc};
use super::*;
use crate::operator::window::*;
use std::time::Duration;

const TICK_MS: u64 = 40;

fn drive_timed<M>(mut mgr: M, items: &[(i128, i128)]) -> String
where
    M: WindowManager<In = u64, Out = Vec<u64>>,
    M::Output: IntoIterator<Item = WindowResult<Vec<u64>>>,
{
    // items: (sleep ticks before the call, element) ; element < 0 encodes markers: -5 F&R, -4 Terminate, -3 FlushBatch, -2 Watermark
    let mut out: Vec<String> = Vec::new();
    for &(ticks, el) in items {
        if ticks > 0 {
            std::thread::sleep(Duration::from_millis(ticks as u64 * TICK_MS));
        }
        let e = match el {
            -5 => StreamElement::FlushAndRestart,
            -4 => StreamElement::Terminate,
            -3 => StreamElement::FlushBatch,
            -2 => StreamElement::Watermark(0),
            v => StreamElement::Item(v as u64),
        };
        let res: Vec<String> = mgr.process(e).into_iter().map(|r| fmt_wr(&r)).collect();
        out.push(res.join(" "));
    }
    out.join(" | ")
}

#[no_mangle]
pub fn verif_replay_ops_time(name: &str, a: &[i128]) -> Option<String> {
    // args = [size_ticks, slide_ticks (0 for session), npairs, (sleep_ticks, element)*]
    if name != "mgr_session" && name != "mgr_processing" {
        return None;
    }
    if a.len() < 3 || a.len() != 3 + 2 * a[2] as usize {
        return Some(format!("BADARGS {:?}", a));
    }
    let items: Vec<(i128, i128)> = a[3..].chunks(2).map(|c| (c[0], c[1])).collect();
    let size = Duration::from_millis(a[0] as u64 * TICK_MS);
    Some(match name {
        "mgr_session" => {
            let d = SessionWindow::new(size);
            drive_timed(<SessionWindow as WindowDescription<u64>>::build(&d, VecAcc::default()), &items)
        }
        _ => {
            let d = ProcessingTimeWindow::sliding(size, Duration::from_millis(a[1] as u64 * TICK_MS));
            drive_timed(<ProcessingTimeWindow as WindowDescription<u64>>::build(&d, VecAcc::default()), &items)
        }
    })
}
