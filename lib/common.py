"""Shared plumbing of the checks: scratch copies of /repo, MIR dump cache, evidence files,
known findings, native replay builds."""
import fcntl
import hashlib
import json
import os
import shutil
import subprocess
import sys
import tempfile
import time

VERIF = os.path.dirname(os.path.dirname(os.path.abspath(__file__)))
REPO = os.environ.get('VERIF_REPO', '/repo')
CACHE = os.path.join(VERIF, '.cache')
OUT = os.path.join(VERIF, 'out')
EVIDENCE = os.path.join(VERIF, 'evidence')
ENV = dict(os.environ, CARGO_NET_OFFLINE='true')


def log(*a):
    print(*a, file=sys.stderr, flush=True)


def tree_hash():
    """Hash of everything the encodings are generated from."""
    h = hashlib.sha1()
    files = []
    for dp, dn, fn in os.walk(os.path.join(REPO, 'src')):
        dn.sort()
        for f in sorted(fn):
            files.append(os.path.join(dp, f))
    for f in ('Cargo.toml', 'Cargo.lock'):
        files.append(os.path.join(REPO, f))
    for p in files:
        h.update(p.encode())
        with open(p, 'rb') as fh:
            h.update(fh.read())
    return h.hexdigest()[:16]


def scratch_copy(prefix='verif-scratch-'):
    """Fresh copy of /repo's working tree (sources only) outside /repo and /verif."""
    d = tempfile.mkdtemp(prefix=prefix, dir=os.environ.get('VERIF_TMP', '/tmp'))
    subprocess.check_call(['rsync', '-a', '--exclude', 'target', '--exclude', '.git', '--exclude', 'benches',
                           '--exclude', 'examples', REPO + '/', d + '/'])
    # benches/examples are declared in Cargo.toml: strip the declarations so cargo does not look for them
    ct = open(os.path.join(d, 'Cargo.toml')).read()
    out, skip = [], False
    for ln in ct.split('\n'):
        if ln.strip() in ('[[bench]]', '[[example]]'):
            skip = True
            continue
        if skip and (ln.startswith('[') and not ln.startswith('[[bench') and not ln.startswith('[[example')):
            skip = False
        if skip:
            continue
        out.append(ln)
    open(os.path.join(d, 'Cargo.toml'), 'w').write('\n'.join(out))
    return d


class FileLock:
    def __init__(self, name):
        os.makedirs(CACHE, exist_ok=True)
        self.path = os.path.join(CACHE, name + '.lock')

    def __enter__(self):
        self.fh = open(self.path, 'w')
        fcntl.flock(self.fh, fcntl.LOCK_EX)
        return self

    def __exit__(self, *a):
        fcntl.flock(self.fh, fcntl.LOCK_UN)
        self.fh.close()


def mir_dump():
    """MIR text of the crate as it is in /repo *now* (regenerated whenever the tree hash changes)."""
    h = tree_hash()
    os.makedirs(os.path.join(CACHE, 'mir'), exist_ok=True)
    path = os.path.join(CACHE, 'mir', h + '.mir')
    with FileLock('mir'):
        if os.path.exists(path) and os.path.getsize(path) > 1000:
            return open(path).read(), h, 0.0
        t = time.time()
        d = scratch_copy('verif-mir-')
        try:
            cmd = ['cargo', '+nightly', 'rustc', '--offline', '--lib', '--', '-Zunpretty=mir',
                   '-C', 'debug-assertions=off', '-C', 'overflow-checks=on', '-Zinline-mir=no']
            env = dict(ENV, CARGO_TARGET_DIR=os.path.join(CACHE, 'mir-target'))
            p = subprocess.run(cmd, cwd=d, env=env, stdout=subprocess.PIPE, stderr=subprocess.PIPE, text=True)
            if p.returncode != 0 or len(p.stdout) < 1000:
                log(p.stderr[-4000:])
                raise RuntimeError('MIR dump failed (does /repo compile?)')
            # keep only the few latest dumps
            mdir = os.path.join(CACHE, 'mir')
            old = sorted((os.path.getmtime(os.path.join(mdir, f)), f) for f in os.listdir(mdir))
            for _, f in old[:-4]:
                os.unlink(os.path.join(mdir, f))
            with open(path + '.tmp', 'w') as fh:
                fh.write(p.stdout)
            os.rename(path + '.tmp', path)
            return p.stdout, h, time.time() - t
        finally:
            shutil.rmtree(d, ignore_errors=True)


_world = None


def world():
    global _world
    if _world is None:
        sys.path.insert(0, VERIF)
        from mirsym.executor import World
        txt, h, dt = mir_dump()
        t = time.time()
        _world = World(txt, REPO)
        _world.tree_hash = h
        _world.mir_s = dt
    return _world


# ---------------------------------------------------------------------------------------
# known findings
# ---------------------------------------------------------------------------------------

def known_findings():
    p = os.path.join(VERIF, 'known_findings.json')
    if not os.path.exists(p):
        return []
    return json.load(open(p)).get('findings', [])


# ---------------------------------------------------------------------------------------
# native replay
# ---------------------------------------------------------------------------------------

REPLAY_MAIN = r'''
extern "Rust" { fn verif_replay(name: &str, args: &[i128]) -> String; }
fn main() {
    let a: Vec<String> = std::env::args().collect();
    let nums: Vec<i128> = a[2..].iter().map(|s| s.parse().unwrap()).collect();
    let r = std::panic::catch_unwind(|| unsafe { verif_replay(&a[1], &nums) });
    match r { Ok(s) => println!("RESULT {}", s), Err(_) => println!("RESULT PANIC") }
}
#[allow(unused_imports)] use renoir as _;
'''


def _prune_target(tdir, limit_gb=6):
    """keep the build cache of the replay driver bounded: every changed tree leaves incremental state and stale
    artifacts behind; above the limit the incremental directories go first, then the whole directory"""
    def size_gb():
        try:
            out = subprocess.run(['du', '-s', '--block-size=1M', tdir], stdout=subprocess.PIPE, text=True).stdout
            return int(out.split()[0]) / 1024.0
        except Exception:
            return 0.0
    if not os.path.isdir(tdir) or size_gb() <= limit_gb:
        return
    for prof in ('debug', 'release'):
        shutil.rmtree(os.path.join(tdir, prof, 'incremental'), ignore_errors=True)
    if size_gb() > limit_gb:
        shutil.rmtree(tdir, ignore_errors=True)


class Replayer:
    """Builds (once per run) the real crate from /repo's tree with the replay entry points of
    /verif/replay/*.rs appended as child modules, plus a tiny driver binary; then runs concrete
    witnesses against it in the dev and the release profile."""

    def __init__(self):
        self.dir = None
        self.bins = {}

    def build(self):
        if self.dir is not None:
            return
        with FileLock('replay'):
            d = scratch_copy('verif-replay-')
            self.dir = d
            rdir = os.path.join(VERIF, 'replay')
            entries = []
            for f in sorted(os.listdir(rdir)):
                if not f.endswith('.rs'):
                    continue
                src = open(os.path.join(rdir, f)).read()
                first = src.split('\n', 1)[0]
                assert first.startswith('// target: '), f
                target = first[len('// target: '):].strip()
                modname = 'verif_replay_' + f[:-3]
                with open(os.path.join(d, target), 'a') as fh:
                    fh.write('\n#[path = "%s"]\nmod %s;\n' % (os.path.join(rdir, f), modname))
                entries.append(f[:-3])
            # dispatcher in lib.rs
            disp = ['\nextern "Rust" {']
            for e in entries:
                disp.append('    fn verif_replay_%s(name: &str, args: &[i128]) -> Option<String>;' % e)
            disp.append('}\n#[no_mangle]\npub fn verif_replay(name: &str, args: &[i128]) -> String {')
            for e in entries:
                disp.append('    if let Some(s) = unsafe { verif_replay_%s(name, args) } { return s; }' % e)
            disp.append('    format!("UNKNOWN {}", name)\n}\n')
            with open(os.path.join(d, 'src', 'lib.rs'), 'a') as fh:
                fh.write('\n'.join(disp))
            drv = os.path.join(d, 'verif_driver')
            os.makedirs(os.path.join(drv, 'src'))
            open(os.path.join(drv, 'Cargo.toml'), 'w').write(
                '[package]\nname = "verif_driver"\nversion = "0.0.0"\nedition = "2021"\n'
                '[dependencies]\nrenoir = { path = ".." }\n[workspace]\n'
                '[profile.release]\nopt-level = 3\n')
            open(os.path.join(drv, 'src', 'main.rs'), 'w').write(REPLAY_MAIN)
            shutil.copy(os.path.join(d, 'Cargo.lock'), os.path.join(drv, 'Cargo.lock'))
            tdir = os.path.join(CACHE, 'replay-target')
            _prune_target(tdir)
            env = dict(ENV, CARGO_TARGET_DIR=tdir)
            for prof in ('dev', 'release'):
                cmd = ['cargo', 'build', '--offline'] + (['--release'] if prof == 'release' else [])
                p = subprocess.run(cmd, cwd=drv, env=env, stdout=subprocess.PIPE, stderr=subprocess.STDOUT,
                                   text=True)
                if p.returncode != 0:
                    log(p.stdout[-6000:])
                    raise RuntimeError('replay build failed (%s)' % prof)
                b = os.path.join(CACHE, 'replay-target', 'debug' if prof == 'dev' else 'release', 'verif_driver')
                dst = os.path.join(d, 'driver-' + prof)
                shutil.copy(b, dst)
                self.bins[prof] = dst

    def run(self, name, args, timeout=60):
        """-> {'dev': 'text', 'release': 'text'}"""
        self.build()
        out = {}
        for prof, b in self.bins.items():
            try:
                p = subprocess.run([b, name] + [str(int(a)) for a in args], stdout=subprocess.PIPE,
                                   stderr=subprocess.PIPE, text=True, timeout=timeout)
                res = [l for l in p.stdout.split('\n') if l.startswith('RESULT ')]
                out[prof] = res[-1][7:] if res else 'NORESULT rc=%d %s' % (p.returncode, p.stderr[-300:])
            except subprocess.TimeoutExpired:
                out[prof] = 'TIMEOUT'
        return out

    def close(self):
        if self.dir:
            shutil.rmtree(self.dir, ignore_errors=True)
            self.dir = None


_replayer = None


def replayer():
    global _replayer
    if _replayer is None:
        _replayer = Replayer()
    return _replayer


def close_all():
    if _replayer is not None:
        _replayer.close()
