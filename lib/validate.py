"""Differential validation of the MIR executor against the real build.

For every harness kind that has a native driver, random paths are executed symbolically (random decisions at
every fork), a model of the path condition gives concrete inputs, the real build is run on them, and the two
outputs must be equal (element by element; order inside an iteration ignored where a HashMap decides it).
usage: python3-vt -m lib.validate [K per kind] -> evidence/_validation.json, exit 0 iff no disagreement"""
import importlib
import json
import os
import random
import sys
import time

from . import common

KINDS = [
    ('props.C07', 'fold_harness', {'iters': 2, 'max_len': 3}, False),
    ('props.C07', 'keyed_fold_harness', {'iters': 2, 'max_len': 3}, True),
    ('props.C12', 'count_window_harness', {'size': 3, 'slide': 2, 'iters': 2, 'max_len': [5, 3]}, False),
    ('props.C13', 'event_time_harness', {'size': 3, 'slide': 2, 'iters': 1, 'max_len': 4, 'base': 1000}, False),
    ('props.C13', 'window_op_harness', {'kind': 'event_time', 'p': {'size': 2, 'slide': 2}, 'iters': 2, 'max_len': [3, 2]}, True),
    ('props.C12', 'window_op_harness', {'kind': 'count', 'p': {'size': 2, 'slide': 1, 'exact': False}, 'iters': 2, 'max_len': [3, 2]}, True),
    ('props.C16', 'reorder_harness', {'iters': 2, 'max_len': [4, 2]}, False),
    ('props.C17', 'start_harness', {'nsenders': 2, 'iters': 2, 'max_len': [2, 1], 'timed': True, 'cut': 'any', 'progress': False}, False),
    ('props.C08', 'join_harness', {'algo': 'hash', 'variant': 'Outer', 'nl': 2, 'nr': 2, 'iters': 2}, True),
    ('props.C08', 'join_harness', {'algo': 'sort_merge', 'variant': 'Outer', 'nl': 2, 'nr': 2, 'iters': 2}, True),
    ('props.C09', 'zip_harness', {'nl': 2, 'nr': 1, 'iters': 2, 'max_len': [2, 1], 'timed': False}, False),
    ('props.C09', 'merge_harness', {'nl': 2, 'nr': 1, 'iters': 2, 'max_len': [2, 1]}, True),
    ('props.C06', 'flat_map_harness', {'iters': 2, 'max_len': [3, 2]}, False),
    ('props.C13', 'transaction_harness', {'max_len': 4}, False),
    ('props.C08', 'interval_join_harness', {'n': 4, 'iters': 2}, True),
    ('props.C10', 'iteration_end_harness', {'rounds': 3}, False),
    ('props.C15', 'iterator_source_harness', {'n': 3}, False),
    # harnesses whose native replay runs a whole job through the public API (or has no element-wise output): the
    # oracle must accept the real build on every sampled input
    ('props.C09', 'route_harness', {'nroutes': 3, 'mode': 'fixed', 'bsize': 2, 'iters': 2, 'max_len': [3, 2]}, None),
    ('props.C07', 'two_phase_harness', {'builder': 'group_by_avg', 'op': 'add', 'nvals': 4, 'nparts': 3}, None),
    ('props.C07', 'two_phase_harness', {'builder': 'reduce_assoc', 'op': 'max', 'nvals': 4, 'nparts': 3}, None),
    ('props.C07', 'two_phase_harness', {'builder': 'group_by_min_element', 'op': 'add', 'nvals': 3, 'nparts': 2}, None),
    ('props.C10', 'replay_harness', {'outer': 1, 'max_len': 3, 'max_rounds': 3}, None),
    ('props.C10', 'iterate_harness', {'max_len': 2, 'max_rounds': 3, 'outer': 1}, None),
    ('props.C15', 'channel_source_harness', {'n': 2}, None),
    ('props.C19', 'replication_algebra', {}, None),
    ('props.C10', 'state_lock_harness', {}, None),
    ('props.C08', 'join_harness', {'algo': 'keyed', 'variant': 'Outer', 'nl': 2, 'nr': 2, 'iters': 1}, None),
    ('props.C09', 'merge_plan_harness', {'nl': 2, 'nr': 2, 'R': 2}, None),
    ('props.C08', 'join_plan_harness', {'api': 'outer_join', 'nl': 2, 'nr': 2, 'R': 2}, None),
    ('props.C08', 'join_plan_harness', {'api': 'broadcast_hash_left', 'nl': 2, 'nr': 2, 'R': 2}, None),
    ('props.C08', 'join_plan_harness', {'api': 'hash_sort_merge_left', 'nl': 2, 'nr': 2, 'R': 2}, None),
    ('props.C07', 'agg_plan_harness', {'builder': 'fold_assoc', 'op': 'add', 'nvals': 3, 'R': 2}, None),
    ('props.C07', 'agg_plan_harness', {'builder': 'group_by_fold', 'op': 'max', 'nvals': 3, 'R': 2}, None),
    ('props.C07', 'agg_plan_harness', {'builder': 'group_by+reduce', 'op': 'add', 'nvals': 3, 'R': 2}, None),
    ('props.C07', 'agg_plan_harness', {'builder': 'group_by_min_element', 'op': 'add', 'nvals': 3, 'R': 2}, None),
    ('props.C03', 'wiring_harness', {'builder': 'ship_hash'}, None),
    ('props.C03', 'wiring_harness', {'builder': 'group_by'}, None),
    ('props.C03', 'wiring_harness', {'builder': 'broadcast'}, None),
    ('props.C20', 'dead_channel_harness', {'adaptive': True}, None),
    ('props.C20', 'crash_harness', {'nsenders': 2, 'adaptive': True, 'max_len': 1}, None),
    ('props.C20', 'join_harness', {'n': 3}, None),
    ('props.C15', 'csv_source_harness', {'size': 6, 'replicas': 3, 'has_headers': True, 'crlf': True}, None),
    ('props.C15', 'csv_source_harness', {'size': 5, 'replicas': 4, 'has_headers': False}, None),
    ('props.C02', 'demux_harness', {'n_endpoints': 2, 'nmsgs': 3}, None),
    ('props.C02', 'mux_harness', {'n_endpoints': 2, 'nmsgs': 3}, None),
    ('props.C02', 'select_harness', {'na': 2, 'nb': 2, 'timed': True}, None),
    ('props.C18', 'binstart_flush_harness', {'nl': 1, 'nr': 1, 'iters': 1, 'max_len': [2], 'timeouts': 1}, None),
    ('props.C07', 'rich_map_harness', {'iters': 2, 'max_len': [3, 2]}, True),
    ('props.C03', 'wiring_harness', {'builder': 'group_by_fold'}, None),
    ('props.C14', 'time_window_harness', {'kind': 'processing', 'size': 3, 'slide': 3, 'max_len': [2, 2], 'iters': 2}, None),
]


def conc(ex, v, model):
    from mirsym.values import Int, Agg, Enum, norm
    import z3
    if v is None:
        return '|'
    if isinstance(v, Int):
        if v.concrete:
            return v.v
        return norm(v.ty, model.eval(v.v, model_completion=True).as_long())
    if isinstance(v, bool):
        return v
    if isinstance(v, Enum):
        return (v.variant,) + tuple(conc(ex, f, model) for f in v.fields)
    if isinstance(v, Agg):
        return tuple(conc(ex, f, model) for f in v.fields)
    if hasattr(v, 'items'):
        return tuple(conc(ex, f, model) for f in v.items)
    return repr(v)


def canon(seq, unordered):
    """split at iteration markers; sort inside when a hash map decides the order"""
    if not unordered:
        return seq
    out, cur = [], []
    for e in seq:
        if isinstance(e, tuple) and e and e[0] in ('FlushAndRestart', 'Terminate', 'Watermark'):
            out += sorted(cur, key=repr) + [e]
            cur = []
        else:
            cur.append(e)
    return out + sorted(cur, key=repr)


def main():
    K = int(sys.argv[1]) if len(sys.argv) > 1 else 3
    seed = int(os.environ.get('VERIF_SEED', '0') or 0)
    from mirsym.executor import Executor, Unsupported, RustPanic, Infeasible, BoundExceeded
    from mirsym.explore import witness_of, discharge, Violation
    w = common.world()
    rp = common.replayer()
    t0 = time.time()
    programs, disagreements, samples, skipped, unusable = 0, [], [], 0, []
    only = os.environ.get('VERIF_VALIDATE_ONLY')
    for modname, fac, params, unordered in KINDS:
        if only and not any(o in fac for o in only.split(',')):
            continue
        mod = importlib.import_module(modname)
        f = getattr(mod, fac, None)
        for alt in ('props.ops', 'props.binary', 'props.joins', 'props.end', 'props.start'):
            if f is None:
                f = getattr(importlib.import_module(alt), fac, None)
        h = f(w, **params)
        for i in range(K):
            rnd = random.Random(1000 * seed + 17 * i + hash(fac) % 1000)
            ex = Executor(w, [])
            ex.env['random'] = rnd
            ex.env['concrete_fold'] = True
            try:
                h(ex)
                discharge(ex)
            except (Infeasible, Violation, RustPanic, Unsupported, BoundExceeded):
                skipped += 1
                continue
            m = ex.model_for(True)
            if m is None or (unordered is not None and 'last_output' not in ex.env):
                skipped += 1
                continue
            wit = witness_of(ex, m)
            a = [conc(ex, v, m) for v in ex.env.get('last_output', [])]
            outs = {}
            for prof in ('dev', 'release'):
                ex2 = Executor(w, ex.trace)
                ex2.env['pin'] = wit
                ex2.env['native'] = (rp.run, prof)
                ex2.env['eager_checks'] = True
                try:
                    h(ex2)
                except (Violation, RustPanic) as e:
                    disagreements.append({'kind': fac, 'params': params, 'witness': wit, 'profile': prof,
                                          'error': 'oracle rejected the real build: %s' % getattr(e, 'msg', e)})
                    continue
                except (Unsupported, BoundExceeded, Infeasible) as e:
                    unusable.append('%s: %s' % (fac, e))
                    continue
                if unordered is None:
                    outs[prof] = a
                    continue
                m2 = ex2.model_for(True)
                outs[prof] = [conc(ex2, v, m2) for v in ex2.env.get('last_output', [])]
            programs += 1
            for prof, b in outs.items():
                if canon(a, unordered) != canon(b, unordered):
                    disagreements.append({'kind': fac, 'params': params, 'witness': wit, 'profile': prof,
                                          'mirsym': repr(a)[:600], 'native': repr(b)[:600]})
            if len(samples) < 6:
                samples.append({'kind': fac, 'witness': wit, 'output': repr(a)[:300]})
    common.close_all()
    ev = {'property_id': '_validation', 'tier': 'quick', 'seed': seed, 'level': 'translation_validation',
          'coverage': {'programs': max(programs, 1), 'disagreements_checked': len(disagreements),
                       'samples': samples or [{'note': 'none'}], 'skipped_paths': skipped,
                       'kinds': [k[1] + ':' + json.dumps(k[2]) for k in KINDS],
                       'disagreements': disagreements[:10], 'native_runs_unusable': sorted(set(unusable))[:10],
                       'explanation': 'random symbolic paths of each harness executed by mirsym and by the real dev and '
                                      'release builds on the same concrete inputs; outputs compared element by element'},
          'wall_s': round(time.time() - t0, 1), 'violations': len(disagreements)}
    os.makedirs(common.EVIDENCE, exist_ok=True)
    json.dump(ev, open(os.path.join(common.EVIDENCE, '_validation.json'), 'w'), indent=1, default=str)
    print('translator validation: %d programs, %d disagreements, %d skipped, %.0fs' %
          (programs, len(disagreements), skipped, time.time() - t0))
    for u in sorted(set(unusable))[:10]:
        print('UNUSABLE', u[:300])
    for d in disagreements[:5]:
        print('DISAGREEMENT', json.dumps(d, default=str)[:800])
    sys.exit(1 if disagreements else 0)


if __name__ == '__main__':
    main()
