"""Entry point: python -m lib.check <ID> <quick|thorough>

exit 0: property held on everything explored (known findings are printed, not alarms)
exit 1: + line `VIOLATION property=<id> replay=<path>`: a violation confirmed against the real build
exit 2: inconclusive (unsupported MIR, bound/timeout, vacuous cover, counterexample that does not replay)
"""
import importlib
import json
import os
import sys
import time

from . import common
from .common import log
from . import runner


def main():
    pid, tier = sys.argv[1], (sys.argv[2] if len(sys.argv) > 2 else os.environ.get('VERIF_TIER', 'quick'))
    seed = int(os.environ.get('VERIF_SEED', '0') or 0)
    t0 = time.time()
    modname = 'props.' + pid
    mod = importlib.import_module(modname)
    try:
        import z3
        z3.set_param('smt.random_seed', seed % (2 ** 30))
        z3.set_param('sat.random_seed', seed % (2 ** 30))
    except Exception:
        pass
    tasks = mod.TASKS(tier)
    if seed:
        import random
        random.Random(seed).shuffle(tasks)
    w = common.world()
    cap = int(os.environ.get('VERIF_DEADLINE_S', '1500' if tier == 'quick' else '5400'))
    results, used_f, used_m, errors, wall = runner.run_tasks(modname, tasks, deadline=time.time() + cap)
    known = [k for k in common.known_findings() if k['property'] == pid and k.get('status', 'open') == 'open']
    os.makedirs(common.OUT, exist_ok=True)
    os.makedirs(common.EVIDENCE, exist_ok=True)
    violations, inconclusive, known_hit = [], list(errors), {}
    vkeys = set()
    subchecks = []
    tot_paths = tot_ok = tot_q = 0
    tot_solver = 0.0
    samples = []
    for t in tasks:
        r = results[t.name]
        tot_paths += r.paths
        tot_ok += r.ok
        tot_q += r.queries
        tot_solver += r.solver_s
        for s in r.samples[:2]:
            if len(samples) < 8:
                samples.append({'task': t.name, 'case': s})
        st = 'held'
        for inc in r.inconclusive:
            inconclusive.append('%s: %s' % (t.name, inc))
            st = 'inconclusive'
        # vacuity: each task must complete at least one path, and reach its declared covers
        if r.ok == 0 and not r.violations and not r.inconclusive:
            inconclusive.append('%s: vacuous (no feasible path reached the end)' % t.name)
            st = 'inconclusive'
        for cov in t.opts.get('covers', []):
            if not r.covers.get(cov):
                inconclusive.append('%s: cover "%s" never reached (vacuity witness failed)' % (t.name, cov))
                st = 'inconclusive'
        seen_keys = set()
        for v in r.violations:
            key = mod.classify(t, v) if hasattr(mod, 'classify') else t.role
            if key in seen_keys:
                continue
            seen_keys.add(key)
            kf = [k for k in known if k['key'] == key]
            if kf:
                known_hit[key] = kf[0]
                st = 'known-finding' if st == 'held' else st
                continue
            if key not in vkeys:
                vkeys.add(key)
                violations.append((t, key, v))
            st = 'violation'
        subchecks.append({'task': t.name, 'bounds': t.bounds, 'paths': r.paths, 'paths_ok': r.ok,
                          'infeasible': r.infeasible, 'queries': r.queries, 'solver_s': round(r.solver_s, 2),
                          'mir_steps': r.steps, 'status': st, 'covers': r.covers})
    # triage new violations: replay against the real build
    confirmed = []
    n = 0
    for t, key, v in violations:
        n += 1
        path = os.path.join(common.OUT, 'replay', '%s-%d.json' % (pid, n))
        os.makedirs(os.path.dirname(path), exist_ok=True)
        rec = {'property': pid, 'task': t.name, 'key': key, 'msg': v['msg'], 'witness': v.get('witness'),
               'extra': v.get('extra'), 'where': v.get('where'), 'bounds': t.bounds}
        try:
            if hasattr(mod, 'replay') and t.opts.get('custom_replay', True) and not t.opts.get('native'):
                ok, detail = mod.replay(t, v)
            else:
                from mirsym.explore import replay_native
                h = getattr(mod, t.factory)(w, **t.params)
                ok, detail = replay_native(w, h, v, common.replayer().run)
        except Exception as e:
            ok, detail = None, 'replay failed to run: %r' % (e,)
        rec['native_replay'] = detail
        rec['confirmed'] = ok
        json.dump(rec, open(path, 'w'), indent=1, default=str)
        if ok:
            confirmed.append((key, path, v))
        else:
            inconclusive.append('%s: counterexample (%s) did not replay natively: %s [%s]' %
                                (t.name, v['msg'], detail, path))
    common.close_all()
    for key, kf in sorted(known_hit.items()):
        print('KNOWN-FINDING: property=%s %s' % (pid, kf['what']))
    for key, path, v in confirmed:
        print('VIOLATION property=%s replay=%s' % (pid, path))
        log('  %s: %s witness=%s' % (key, v['msg'], v.get('witness')))
    for inc in inconclusive[:40]:
        log('INCONCLUSIVE: ' + inc[:600])
    meta = getattr(mod, 'META', {})
    ev = {
        'property_id': pid, 'tier': tier, 'seed': seed, 'level': 'other',
        'coverage': {
            'explanation': meta.get('explanation', '') + ' Decided by symbolic execution of the MIR of the listed '
            'functions (regenerated from /repo at tree hash %s) with z3 deciding every path condition and '
            'property assertion; every path inside the stated bounds was explored.' % w.tree_hash,
            'evaluations': tot_paths, 'distinct_nontrivial': tot_ok,
            'rule': 'one evaluation = one feasible symbolic path (a set of concrete runs sharing a control-flow '
                    'path, all decided at once by the solver); non-trivial = path reached the end of the harness '
                    'and its assertions were discharged',
            'obligations': len(subchecks),
            'discharged': sum(1 for s in subchecks if s['status'] in ('held', 'known-finding')),
            'checker_cmd': 'bin/check %s %s' % (pid, tier),
            'samples': samples or [{'note': 'no path completed'}],
            'subchecks': subchecks,
            'functions_encoded': sorted(used_f.items()),
            'std_models_used': used_m,
            'solver': 'z3 %s (python3-vt z3-solver), bit-vector theory' % _z3v(),
            'solver_queries': tot_q, 'solver_s': round(tot_solver, 2),
            'mir_dump_s': round(getattr(w, 'mir_s', 0.0), 1),
            'known_findings_reported': sorted(known_hit),
            'inconclusive': inconclusive[:40],
            'exhaustive': not inconclusive,
            'trusted_base': meta.get('trusted', []),
        },
        'assumptions': meta.get('assumptions', []),
        'wall_s': round(time.time() - t0, 2),
        'violations': len(confirmed),
    }
    json.dump(ev, open(os.path.join(common.EVIDENCE, pid + '.json'), 'w'), indent=1, default=str)
    log('%s %s: %d tasks, %d paths, %d queries, solver %.1fs, wall %.1fs; violations=%d known=%d inconclusive=%d' %
        (pid, tier, len(tasks), tot_paths, tot_q, tot_solver, time.time() - t0, len(confirmed), len(known_hit),
         len(inconclusive)))
    if confirmed:
        sys.exit(1)
    if inconclusive:
        sys.exit(2)
    sys.exit(0)


def _z3v():
    import z3
    return z3.get_version_string()


if __name__ == '__main__':
    try:
        main()
    except SystemExit:
        raise
    except BaseException as e:      # machinery failure (MIR dump failed, harness bug, ...): inconclusive, never exit 1
        import traceback
        traceback.print_exc()
        log('INCONCLUSIVE: the check could not run: %r' % (e,))
        sys.exit(2)
