"""Check runner: schedules mirsym harness tasks over a process pool, collects results, triages
violations (known findings / native replay), writes the evidence file and sets the exit code."""
import importlib
import json
import multiprocessing as mp
import os
import sys
import time
import traceback

from . import common
from .common import log

sys.path.insert(0, common.VERIF)

_W = None
_MOD = None


def _init(modname):
    global _W, _MOD
    _W = common.world()
    _MOD = importlib.import_module(modname)


def _run_task(args):
    """Worker: run one (harness, params, prefix) task with a path budget."""
    from mirsym.explore import explore
    name, factory, params, prefix, budget, opts = args
    try:
        h = getattr(_MOD, factory)(_W, **params)
        frontier = []
        r = explore(_W, h, max_paths=budget, prefix=prefix, frontier=frontier,
                    panic_is_violation=opts.get('panic_is_violation', True),
                    step_limit=opts.get('step_limit', 400000), split_after=opts.get('split_after', 6))
        used_f = {f.name: _W.prog.fingerprint(f) for f in _W.used_functions.values()}
        used_m = sorted(_W.used_models)
        return (name, r, frontier, used_f, used_m, None)
    except Exception:
        return (name, None, [], {}, [], traceback.format_exc())


class Task:
    def __init__(self, name, factory, params=None, bounds='', role=None, opts=None, budget=400):
        self.name = name
        self.factory = factory
        self.params = params or {}
        self.bounds = bounds
        self.role = role or name
        self.opts = opts or {}
        self.budget = budget


def run_tasks(modname, tasks, jobs=None, deadline=None):
    """Run all tasks (splitting big ones by decision prefix). -> {task name: Result}, used fns/models"""
    from mirsym.explore import Result
    jobs = jobs or int(os.environ.get('VERIF_JOBS', '16'))
    _init(modname)             # parent builds the world once; workers inherit it by fork
    ctx = mp.get_context('fork')
    results = {t.name: Result() for t in tasks}
    by_name = {t.name: t for t in tasks}
    used_f, used_m = {}, set()
    errors = []
    pending = 0
    t0 = time.time()
    with ctx.Pool(jobs) as pool:
        q = []

        def submit(t, prefix):
            nonlocal pending
            pending += 1
            q.append(pool.apply_async(_run_task, ((t.name, t.factory, t.params, prefix, t.budget, t.opts),)))

        for t in tasks:
            submit(t, [])
        while q:
            # poll
            done = [a for a in q if a.ready()]
            if not done:
                time.sleep(0.02)
                if deadline and time.time() > deadline:
                    for name in results:
                        pass
                    errors.append('deadline reached with %d tasks pending' % len(q))
                    pool.terminate()
                    break
                continue
            for a in done:
                q.remove(a)
                name, r, frontier, uf, um, err = a.get()
                if err:
                    errors.append('%s: %s' % (name, err))
                    continue
                results[name].merge(r)
                used_f.update(uf)
                used_m.update(um)
                for pf in frontier:
                    submit(by_name[name], pf)
    return results, used_f, sorted(used_m), errors, time.time() - t0
