"""Developer helper: run one harness in-process with full tracebacks.
usage: python3-vt -m lib.dev <ID> <factory> [k=v ...] [--paths N] [--raise]"""
import importlib
import sys
import time
import traceback
from . import common


def main():
    pid, fac = sys.argv[1], sys.argv[2]
    params, maxp, doraise = {}, 100000, False
    for a in sys.argv[3:]:
        if a == '--raise':
            doraise = True
        elif a.startswith('--paths='):
            maxp = int(a[8:])
        else:
            k, v = a.split('=', 1)
            try:
                v = eval(v)
            except Exception:
                pass
            params[k] = v
    w = common.world()
    mod = importlib.import_module('props.' + pid)
    h = getattr(mod, fac)(w, **params)
    from mirsym.explore import explore
    from mirsym import executor
    if doraise:
        orig = executor.Unsupported.__init__

        def init(self, *a):
            orig(self, *a)
            traceback.print_stack(limit=12)
        executor.Unsupported.__init__ = init
    t = time.time()
    r = explore(w, h, max_paths=maxp)
    print('paths', r.paths, 'ok', r.ok, 'infeasible', r.infeasible, 'violations', len(r.violations),
          'inconclusive', len(r.inconclusive), 'queries', r.queries, 'solver %.1fs' % r.solver_s,
          'wall %.1fs' % (time.time() - t))
    print('covers', r.covers)
    for v in r.violations[:5]:
        print('VIOL', v['msg'], v.get('witness'), v.get('extra'))
    for i in sorted(set(r.inconclusive))[:8]:
        print('INC', i[:3000])
    for s in r.samples[:3]:
        print('SAMPLE', s)


if __name__ == '__main__':
    main()
