"""C17 -- watermark progress: the minimum over active upstream replicas is forwarded."""
from props.start import *      # noqa
from props.C06 import frontier_tasks, frontier_step, frontier_reset   # noqa
from props.end import *        # noqa

META = {
    'explanation': 'Watermark progress. (a) WatermarkFrontier::update as one inductive step from any invariant '
                   'state, with the *iff* direction: whenever the minimum over all replicas increased or became '
                   'defined, update returns it. (b) Start::next over N upstream replicas, every batch arrival '
                   'order: the watermarks observed downstream equal the running minimum over the replicas that '
                   'have not yet ended their iteration, each before any later element. (c) End::next hands every watermark '
                   'to every replica of every downstream block, in every iteration.',
    'assumptions': ['IndexMap behaves as an insertion-ordered map (model table)',
                    'every upstream replica emits a grammar-valid, watermark-monotone script'],
    'trusted': ['mirsym MIR executor and its std model table', 'z3 / cvc5'],
}


def TASKS(tier):
    # timeouts (adaptive batching) are not the subject here: see C05 / C18
    # (c) the producer side: End broadcasts every watermark it is handed to every replica of every downstream block,
    # in every iteration (a loop body sees the same event-time range again in each round)
    en = [t for t in end_tasks(tier, 'end_watermarks', ('routing',)) if t.params['strategy'] in ('GroupBy', 'All')]
    return frontier_tasks(tier, progress=True) + [t for t in start_tasks(tier, 'start') if t.params.get('timed')] + en


def classify(t, v):
    if t.factory == 'start_harness':
        return classify_start(t, v)
    return t.role
