"""C09 -- fan-out and fan-in operators: split, route, merge, zip, broadcast."""
from props.binary import *     # noqa
from props.end import *        # noqa

from props.plan import merge_plan_harness      # noqa: E402

META = {
    'explanation': 'zip: the real Zip over the real binary Start / SideReceiver code with stub network receivers, every '
                   'interleaving of the two inputs: exactly min(|a|,|b|) pairs per iteration, i-th with i-th, no '
                   'element used twice, stashes cleared at the end of the iteration. split / broadcast: End with '
                   'several downstream blocks / NextStrategy::All delivers every element once per block / to every '
                   'replica. route: RoutingEnd with uninterpreted predicates: each element goes to the first '
                   'matching route only, unmatched ones are dropped, markers reach every route.',
    'assumptions': ['no upstream replica starts iteration k+1 before all have ended iteration k'],
    'trusted': ['mirsym MIR executor and its std model table', 'z3 / cvc5'],
}


def TASKS(tier):
    fan_out = [t for t in end_tasks(tier, 'fan_out', ('routing',))
               if t.params['strategy'] == 'All' or len(t.params['blocks']) > 1]
    from props.plan import merge_plan_tasks
    return zip_tasks(tier, 'zip') + fan_out + route_tasks(tier, 'route') + merge_tasks(tier, 'merge') + \
        merge_plan_tasks(tier, 'merge_plan')
