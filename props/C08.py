"""C08 -- joins output exactly the relational join, whatever the arrival order."""
from props.joins import *      # noqa
from props.plan import join_plan_harness, join_plan_tasks      # noqa

META = {
    'explanation': 'Joins: the real JoinLocalHash and JoinLocalSortMerge (inner / left / outer) are driven over every '
                   'interleaving of the two sides (LeftEnd / RightEnd at every position) with symbolic keys; the '
                   'output of each iteration is compared, as a multiset, with the nested-loop relational join padded '
                   'with None; the operators\' own FlushAndRestart assertions must not fire. The join builder chains (join / left_join / '
                   'outer_join and ship x local x variant combinations) are executed from MIR into a logical plan that is evaluated over '
                   'items spread over the replicas (props/plan.py): ship strategy, local algorithm and variant as the builder wires them.',
    'assumptions': ['both inputs of the block are routed by the same hash (C03)', 'keyer functions are pure'],
    'trusted': ['mirsym MIR executor and its std model table', 'z3 / cvc5'],
}


def TASKS(tier):
    return join_tasks(tier, 'join') + interval_join_tasks(tier, 'interval_join') + \
        join_plan_tasks(tier, 'join_plan')
