"""C08 -- joins output exactly the relational join, whatever the arrival order."""
from props.joins import *      # noqa

META = {
    'explanation': 'Joins: the real JoinLocalHash and JoinLocalSortMerge (inner / left / outer) are driven over every '
                   'interleaving of the two sides (LeftEnd / RightEnd at every position) with symbolic keys; the '
                   'output of each iteration is compared, as a multiset, with the nested-loop relational join padded '
                   'with None; the operators\' own FlushAndRestart assertions must not fire.',
    'assumptions': ['both inputs of the block are routed by the same hash (C03)', 'keyer functions are pure'],
    'trusted': ['mirsym MIR executor and its std model table', 'z3 / cvc5'],
}


def TASKS(tier):
    return join_tasks(tier, 'join') + interval_join_tasks(tier, 'interval_join')
