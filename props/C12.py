"""C12 -- count windows are exactly the sliding groups of each key's arrival sequence."""
from props.ops import *   # noqa

META = {
    'explanation': 'Count windows: the real CountWindow::build + CountWindowManager::process are driven over '
                   'every element script within the bound with an accumulator that records its inputs; each '
                   'process() result is compared with the groups [jS, jS+N) of the arrival sequence.',
    'assumptions': ['accumulators are deterministic'],
    'trusted': ['mirsym MIR executor and its std model table', 'z3 / cvc5'],
}


def TASKS(tier):
    return count_window_tasks(tier, 'count_window') + window_op_tasks(tier, 'window_operator', ('count',))
