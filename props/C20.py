"""C20 -- fail-stop: a panicking user function is never masked by a partial result."""
import z3
from lib.runner import Task
from mirsym.values import Int, Agg, Enum, Ref, Opaque, deep_copy, unit
from mirsym.executor import PyObj, Unsupported, RustPanic
from mirsym.explore import check, Violation
from mirsym.models import zbool, some, none, deref
from mirsym.models_coll import VecModel, ArcModel, MutexModel
from mirsym import hlib

META = {
    'explanation': 'Fail-stop, sequential part. Sinks (CollectVecSink, Collect, CollectCountSink) are driven over every '
                   'symbolic script with an upstream that may panic at any position: the shared output slot stays empty '
                   'until Terminate has been consumed, holds exactly the collected elements afterwards, and stays empty '
                   'on every path on which the upstream panicked. Start over N upstream replicas one of which dies at any point '
                   '(no Terminate, channel disconnected once the survivors are done) fails instead of reporting the end '
                   'of the stream or of the iteration. Scheduler::start_blocking over n worker handles, every subset of which '
                   'failed: it fails iff some worker did (the real join loop; thread creation and the workers themselves are '
                   'stubs). How the other workers notice a dead peer at run time (blocking threads) is outside the technique.',
    'assumptions': ['std::sync::Mutex::lock succeeds when not poisoned',
                    'JoinHandle::join returns Err exactly for a worker that panicked (std contract)',
                    'stubs in the scheduler harness: Scheduler::build_all (returns the n handles), log_topology, '
                    'NetworkTopology::stop_and_wait, wait_profiler, log_tracing_data (no effect)'],
    'trusted': ['mirsym MIR executor and its std model table', 'z3 / cvc5'],
}


class PanickingUpstream(hlib.Upstream):
    """like Upstream but `next` panics (the user function upstream panicked) at call number `at`"""
    name = 'VerifUpstream'

    def __init__(self, script, at):
        hlib.Upstream.__init__(self, script)
        self.at = at

    def trait_call(self, ex, trait, method, args):
        if trait == 'Operator' and method == 'next' and self.pos == self.at:
            raise RustPanic('user function panicked (injected)')
        return hlib.Upstream.trait_call(self, ex, trait, method, args)


def _native_sink(ex, sink, script, at):
    """the real sink (replay/ops_sink.rs) over the concretised script with the upstream panicking at `at`"""
    runner, prof = ex.env['native']
    ex.env['native_used'] = True
    kind = {'collect_vec': 0, 'collect': 1, 'collect_count': 2}[sink]
    args = [kind, at if at < len(script) else -1] + hlib.encode_script(ex, script, False)
    txt = runner('sink', args)[prof]
    ex.env['native_out'] = txt
    head, out = txt.split('OUT')
    toks = head.split()
    flags, ended = toks[:-1], toks[-1]
    out = out.strip()
    if '1' in flags:
        raise Violation('sink published a result before Terminate (native flags %s)' % ' '.join(flags))
    data = [e for e in script if e.variant in ('Item', 'Timestamped')]
    if ended == 'P':
        if out != '-':
            raise Violation('sink published a (partial) result although the upstream panicked: ' + out)
        return {'native': txt}
    if ended != 'E':
        raise Violation('sink did not terminate: ' + txt)
    if sink == 'collect_count':
        want = str(sum(hlib.concrete_int(ex, e.fields[0]) for e in data) % (1 << 64))
    else:
        want = '[' + ','.join(str(e.fields[0].v) for e in data) + ']'
    if out != want:
        raise Violation('published result %s, expected %s' % (out, want))
    return {'native': txt}


def sink_harness(w, sink, iters, max_len):
    tb = {'collect_vec': 'CollectVecSink', 'collect': 'Collect', 'collect_count': 'CollectCountSink'}[sink]
    new = w.impls[(None, tb)]['new'][0]
    nxt = w.impls[('Operator', tb)]['next'][0]
    hlib.check_se_table(w)

    def h(ex):
        ex.env['generics'] = {'C': 'Vec<u64>'}
        pay = (lambda ex, k: ex.fresh_int('usize', 'n%d' % k)) if sink == 'collect_count' else \
            (lambda ex, k: Int('u64', k))
        script = hlib.gen_script(ex, iters, max_len, 'ITW', payload=pay, ts_span=(1000, 4))
        at = ex.choose(len(script) + 1, 'panic position')      # == len(script): no panic
        if ex.env.get('native'):
            return _native_sink(ex, sink, script, at)
        slot = ArcModel(MutexModel(none()))
        op = ex.call_function(new, [PanickingUpstream(script, at), slot])
        holder = [op]
        published = lambda: slot.slot[0].slot[0]
        sx = lambda: {'sink': sink, 'script': [repr(e) for e in script], 'panic_at': at, 'published': repr(published())}
        consumed_terminate = False
        try:
            for _ in range(len(script) + 2):
                if published().variant != 'None' and not consumed_terminate:
                    raise Violation('sink published a result before Terminate', hlib._wit(ex), sx())
                r = ex.call_function(nxt, [Ref(holder, 0)])
                if r.variant == 'Terminate':
                    consumed_terminate = True
                    break
        except RustPanic as p:
            if 'injected' not in p.msg:
                if 'overflow' in p.msg and sink == 'collect_count':
                    from mirsym.executor import Infeasible
                    raise Infeasible()     # usize overflow of the count: out of scope
                raise
            hlib.cover(ex, 'panicked')
            if published().variant != 'None':
                raise Violation('sink published a (partial) result although the upstream panicked', hlib._wit(ex), sx())
            return sx()
        if not consumed_terminate:
            raise Violation('sink did not terminate', hlib._wit(ex), sx())
        res = published()
        if res.variant != 'Some':
            raise Violation('sink did not publish its result at Terminate', hlib._wit(ex), sx())
        data = [e for e in script if e.variant in ('Item', 'Timestamped')]
        if sink == 'collect_count':
            tot = z3.BitVecVal(0, 64)
            for e in data:
                tot = tot + e.fields[0].z()
            check(ex, res.fields[0].z() == tot, 'published count is not the sum of the inputs', sx)
        else:
            got = [x.v for x in res.fields[0].items]
            if got != [e.fields[0].v for e in data]:
                raise Violation('published collection is not exactly the received elements in order', hlib._wit(ex), sx())
        hlib.cover(ex, 'published')
        return sx()
    return h


def TASKS(tier):
    it, ln = (2, [2, 1]) if tier == 'quick' else (2, [3, 2])
    return [Task('sink_%s' % s, 'sink_harness', {'sink': s, 'iters': it, 'max_len': ln},
                 bounds='%s::next driven over %d iterations x <=%s elements with the upstream panicking at any '
                        'position (or not at all)' % (s, it, ln), role='sink',
                 opts={'covers': ['panicked', 'published'], 'panic_is_violation': True}, budget=300)
            for s in ('collect_vec', 'collect', 'collect_count')]


class DeadRx(PyObj):
    """a network receiver whose senders are all gone (the upstream worker died)"""
    name = 'NetworkReceiver'

    def trait_call(self, ex, trait, method, args):
        from mirsym.models import err
        if method == 'recv':
            return err(Enum('channel::RecvError', 'Disconnected', 0, []))
        if method == 'recv_timeout':
            return err(Enum('channel::RecvTimeoutError', 'Disconnected', 1, []))
        raise Unsupported('DeadRx ' + method)


def dead_channel_harness(w, adaptive):
    """Start over a channel whose producers died: it must fail (panic), never end the stream normally"""
    from props.start import exec_metadata
    snew = w.impls[(None, 'Start')]['new'][0]
    nxt = w.impls[('Operator', 'Start')]['next'][0]

    def h(ex):
        if ex.env.get('native'):
            runner, prof = ex.env['native']
            ex.env['native_used'] = True
            txt = runner('dead_start', [int(bool(adaptive))])[prof]
            ex.env['native_out'] = txt
            if txt == 'PANIC':
                hlib.cover(ex, 'panicked')
                return {'native': txt}
            if txt.startswith(('BADARGS', 'UNKNOWN', 'NORESULT')):
                raise Unsupported('native driver: ' + txt)
            toks = txt.split()
            if 'E' in toks or 'F' in toks:
                raise Violation('Start turned a dead upstream channel into a regular end of stream: the failure is masked '
                                '(native output: %s)' % txt, hlib._wit(ex))
            raise Violation('Start keeps running on a dead upstream channel (native output: %s)' % txt, hlib._wit(ex))
        rx = hlib.mk_struct(w, 'SimpleStartReceiver', receiver=some(DeadRx()),
                            previous_replicas=VecModel([hlib.coord(w, 0, 0, 0)]), previous_block_id=Int('u64', 0))
        st = ex.call_function(snew, [rx, none()])
        st.set('coord', some(hlib.coord(w, 1, 0, 0)))
        st.set('num_previous_replicas', Int('usize', 1))
        st.set('missing_terminate', Int('usize', 1))
        st.set('missing_flush_and_restart', Int('usize', 1))
        if adaptive:
            st.set('max_delay', some(Int('u64', 100)))
        holder = [st]
        outs = []
        try:
            for _ in range(4):
                r = ex.call_function(nxt, [Ref(holder, 0)])
                outs.append(r.variant)
                if r.variant in ('Terminate', 'FlushAndRestart'):
                    raise Violation('Start turned a dead upstream channel into a regular %s: the failure is masked' %
                                    r.variant, hlib._wit(ex), {'outputs': outs})
        except RustPanic:
            hlib.cover(ex, 'panicked')
            return {'outputs': outs, 'result': 'panic'}
        if not adaptive:
            raise Violation('Start keeps running on a dead upstream channel', hlib._wit(ex), {'outputs': outs})
        # adaptive mode: a disconnected recv_timeout is treated like a timeout once; the following blocking recv
        # must fail
        raise Violation('Start keeps running on a dead upstream channel', hlib._wit(ex), {'outputs': outs})
    return h


class CrashRx(PyObj):
    """NetworkReceiver of a block whose upstream replica `dead` died after `alive_batches` of its batches: the other
    replicas deliver everything (any interleaving); when nothing is left the channel is disconnected"""
    name = 'NetworkReceiver'

    def __init__(self, w, coords, batches):
        self.w, self.coords, self.batches = w, coords, [list(b) for b in batches]
        self.log = []

    def _next(self, ex):
        avail = [i for i, b in enumerate(self.batches) if b]
        if not avail:
            return None
        i = avail[ex.choose(len(avail), 'arrival') if len(avail) > 1 else 0]
        batch = self.batches[i].pop(0)
        self.log.append((i, batch))
        new_batch = self.w.impls[(None, 'NetworkMessage')]['new_batch'][0]
        return ex.call_function(new_batch, [VecModel([deep_copy(e) for e in batch]), deep_copy(self.coords[i])])

    def trait_call(self, ex, trait, method, args):
        from mirsym.models import err, ok
        if method == 'recv':
            m = self._next(ex)
            return err(Enum('channel::RecvError', 'Disconnected', 0, [])) if m is None else ok(m)
        if method == 'recv_timeout':
            m = self._next(ex)
            return err(Enum('channel::RecvTimeoutError', 'Disconnected', 1, [])) if m is None else ok(m)
        raise Unsupported('CrashRx ' + method)


def crash_harness(w, nsenders, adaptive, max_len):
    """Start over N upstream replicas one of which dies (its worker unwinds: no further batch, no Terminate, its
    sending end is dropped) at any point of its script while the others finish cleanly: Start must fail, it must never
    report the end of the stream or of an iteration the dead replica had not ended"""
    from props.start import cut_batches
    snew = w.impls[(None, 'Start')]['new'][0]
    setup = w.impls[('Operator', 'Start')]['setup'][0]
    nxt = w.impls[('Operator', 'Start')]['next'][0]
    hlib.check_se_table(w)

    def h(ex):
        coords = [hlib.coord(w, 0, 0, i) for i in range(nsenders)]
        scripts = [hlib.gen_script(ex, 1, max_len, 'I', name='s%d' % s, payload=lambda ex, k, s=s: Int('u64', 100 * (s + 1) + k))
                   for s in range(nsenders)]
        batches = [cut_batches(ex, sc, 'each') for sc in scripts]
        dead = ex.choose(nsenders, 'dead replica') if nsenders > 1 else 0
        alive = ex.choose(len(batches[dead]), 'batches sent before dying')     # < len: its Terminate never leaves
        batches[dead] = batches[dead][:alive]
        dead_ended = any(e.variant == 'FlushAndRestart' for b in batches[dead] for e in b)
        rxn = CrashRx(w, coords, batches)
        if ex.env.get('native'):
            # model run first (fixes the arrival order), then the real Start on the same batches
            pass
        from props.binary import Topology
        from props.start import exec_metadata
        rx = hlib.mk_struct(w, 'SimpleStartReceiver', receiver=none(), previous_replicas=VecModel([]),
                            previous_block_id=Int('u64', 0))
        st = ex.call_function(snew, [rx, none()])
        md = exec_metadata(w, hlib.coord(w, 1, 0, 0), adaptive)
        md.set('network', Ref([Topology({0: rxn})], 0))
        md.set('prev', VecModel([Agg('tuple', None, [deep_copy(c), Opaque('TypeId')]) for c in coords]))
        holder = [st]
        ex.call_function(setup, [Ref(holder, 0), Ref([md], 0)])
        outs = []
        sx = lambda: {'senders': [[repr(e) for e in s] for s in scripts], 'dead': dead, 'batches_before_dying': alive,
                      'arrival': [(i, [repr(e) for e in b]) for i, b in rxn.log], 'outputs': outs}
        total = sum(len(b) for bs in batches for b in bs)

        def judge(kinds, panicked):
            if 'Terminate' in kinds:
                raise Violation('Start reports the end of the stream although upstream replica %d died without sending '
                                'Terminate: the failure is masked and the sinks downstream publish a partial result' % dead,
                                hlib._wit(ex), sx())
            if 'FlushAndRestart' in kinds and not dead_ended:
                raise Violation('Start reports the end of the iteration although upstream replica %d died before ending '
                                'it' % dead, hlib._wit(ex), sx())
            if not panicked:
                raise Violation('Start keeps running on a channel whose producers are gone', hlib._wit(ex), sx())
        panicked = False
        try:
            for _ in range(2 * total + 8):
                r = ex.call_function(nxt, [Ref(holder, 0)])
                outs.append(r.variant)
                if r.variant == 'Terminate':
                    break
        except RustPanic:
            panicked = True
        if ex.env.get('native'):
            runner, prof = ex.env['native']
            ex.env['native_used'] = True
            args = [nsenders, int(bool(adaptive)), len(rxn.log)]
            for i, b in rxn.log:
                args += [i, 0, len(b)] + hlib.encode_script(ex, b, False)
            txt = runner('start_crash', args)[prof]
            ex.env['native_out'] = txt
            if txt.startswith(('BADARGS', 'UNKNOWN', 'NORESULT')):
                raise Unsupported('native driver: ' + txt)
            toks = txt.split()
            kinds = [{'E': 'Terminate', 'F': 'FlushAndRestart', 'B': 'FlushBatch'}.get(t, 'Item') for t in toks
                     if t not in ('PANIC', 'TIMEOUT', 'OVERRUN')]
            outs[:] = toks
            judge(kinds, txt == 'PANIC')
            return sx()
        judge(outs, panicked)
        hlib.cover(ex, 'panicked')
        if any(b for i, b in enumerate(rxn.batches) if i != dead):
            raise Violation('Start failed before consuming what the surviving replicas sent', hlib._wit(ex), sx())
        if any(e.variant == 'Terminate' for i, b in rxn.log for e in b):
            hlib.cover(ex, 'sibling_terminated')
        return sx()
    return h


class WorkerHandle(PyObj):
    """std::thread::JoinHandle<()> of a worker: join() returns Err iff the worker panicked (decided by the harness)"""
    name = 'JoinHandle'

    def __init__(self, idx, failed, joined):
        self.idx, self.failed, self.joined = idx, failed, joined

    def trait_call(self, ex, trait, method, args):
        from mirsym.models import err, ok
        if method == 'join':
            self.joined.append(self.idx)
            return err(Opaque('panic payload of worker %d' % self.idx)) if self.failed else ok(unit())
        if method in ('is_finished',):
            return True
        return NotImplemented


def join_harness(w, n):
    """Scheduler::start_blocking with build_all replaced by n worker handles of which an arbitrary subset failed: the
    real code that waits for the workers must fail iff at least one of them did"""
    from mirsym.models_coll import MapModel
    sb = w.impls[(None, 'Scheduler')]['start_blocking'][0]

    def h(ex):
        mask = [ex.choose(2, 'worker %d panicked' % i) == 1 for i in range(n)]
        if ex.env.get('native'):
            runner, prof = ex.env['native']
            ex.env['native_used'] = True
            txt = runner('pipe_panic', [n, sum(1 << i for i, f in enumerate(mask) if f)], timeout=120)[prof]
            ex.env['native_out'] = txt
            toks = txt.split()
            if len(toks) != 2 or any(t not in ('FAILED', 'RETURNED') for t in toks):
                raise Unsupported('native driver: ' + txt)
            if any(mask) and 'RETURNED' in toks:
                raise Violation('execute_blocking returned normally although the user function panicked in replica(s) %s '
                                '(native: %s)' % ([i for i, f in enumerate(mask) if f], txt), hlib._wit(ex))
            if not any(mask) and 'FAILED' in toks:
                raise Violation('execute_blocking failed although no worker panicked (native: %s)' % txt, hlib._wit(ex))
            return {'native': txt}
        joined = []
        handles = VecModel([WorkerHandle(i, mask[i], joined) for i in range(n)])
        binfo = MapModel('HashMap', [[Int('u64', 0), Opaque('SchedulerBlockInfo')]])
        sch = hlib.mk_struct(w, 'Scheduler', config=Opaque('RuntimeConfig'), next_blocks=MapModel('HashMap'),
                             prev_blocks=MapModel('HashMap'), block_info=binfo, block_init=VecModel([]),
                             network=Opaque('NetworkTopology'))
        nop = lambda ex, c, a: unit()
        ex.env['fn_overrides'] = {
            'Scheduler::log_topology': nop,
            'Scheduler::build_all': lambda ex, c, a: Agg('tuple', None, [handles, VecModel([])]),
            'NetworkTopology::stop_and_wait': nop,
            'wait_profiler': lambda ex, c, a: Opaque('ProfilerResult'),
            'Scheduler::log_tracing_data': nop,
        }
        sx = lambda: {'workers': n, 'panicked': [i for i, f in enumerate(mask) if f], 'joined': list(joined)}
        try:
            ex.call_function(sb, [sch, Int('u64', 1)])
        except RustPanic as p:
            if not any(mask):
                raise Violation('the scheduler fails although no worker panicked: %s' % p.msg, hlib._wit(ex), sx())
            hlib.cover(ex, 'failed')
            return sx()
        if any(mask):
            raise Violation('Scheduler::start_blocking returns normally although worker(s) %s panicked: the failure of the '
                            'user function is masked, execute_blocking succeeds' % [i for i, f in enumerate(mask) if f],
                            hlib._wit(ex), sx())
        if sorted(joined) != list(range(n)):
            raise Violation('the scheduler returned without waiting for every worker (joined %s of %d)' % (joined, n),
                            hlib._wit(ex), sx())
        hlib.cover(ex, 'returned')
        return sx()
    return h


_sink_tasks = TASKS


def TASKS(tier):     # noqa: F811
    return _sink_tasks(tier) + [
        Task('dead_channel_%s' % ('adaptive' if a else 'fixed'), 'dead_channel_harness', {'adaptive': a},
             bounds='Start<SimpleStartReceiver>::next on a disconnected channel, batch mode %s' %
                    ('adaptive' if a else 'fixed'), role='dead_channel',
             opts={'covers': ['panicked'], 'panic_is_violation': True}) for a in (False, True)] + [
        Task('crash_%d_%s' % (n, 'adaptive' if a else 'fixed'), 'crash_harness',
             {'nsenders': n, 'adaptive': a, 'max_len': 1 if tier == 'quick' else 2},
             bounds='Start<SimpleStartReceiver>::next over %d upstream replicas (1 iteration x <=%d items each, one element '
                    'per batch, every arrival interleaving), one replica dies after any number of its batches (its '
                    'Terminate is never sent), then the channel is disconnected; batch mode %s' %
                    (n, 1 if tier == 'quick' else 2, 'adaptive' if a else 'fixed'), role='dead_channel',
             opts={'covers': ['panicked', 'sibling_terminated'] if n > 1 else ['panicked']})
        for n in (1, 2) for a in (False, True)] + [
        Task('scheduler_join_%d' % n, 'join_harness', {'n': n},
             bounds='Scheduler::start_blocking (default features: the non-tokio arm) with %d worker handles, every subset '
                    'of them failed; build_all / log_topology / stop_and_wait / wait_profiler / log_tracing_data are stubs' % n,
             role='scheduler_join', opts={'covers': ['failed', 'returned']})
        for n in ((1, 3) if tier == 'quick' else (1, 2, 3, 5))]
