"""Join operators (C08): JoinLocalHash / JoinLocalSortMerge over every interleaving of the two sides."""
import z3
from lib.runner import Task
from mirsym.values import Int, Agg, Enum, Ref, deep_copy, unit
from mirsym.executor import Unsupported
from mirsym.explore import check, Violation
from mirsym.models import zbool, some, none, deref
from mirsym import hlib
from props.end import KeyOf

BE = 'operator::start::binary::BinaryElement'
BEV = {'Left': 0, 'Right': 1, 'LeftEnd': 2, 'RightEnd': 3}


def be(variant, *f):
    return Enum(BE, variant, BEV[variant], list(f))


def join_script(ex, nl, nr, iters):
    """one iteration = any interleaving of <=nl left and <=nr right items, LeftEnd / RightEnd at any point
    after the side's last item"""
    script, meta = [], []
    idn = 0
    for it in range(iters):
        kl = ex.choose(nl + 1, 'n left')
        kr = ex.choose(nr + 1, 'n right')
        L = [('L', i) for i in range(kl)] + [('LE', None)]
        R = [('R', i) for i in range(kr)] + [('RE', None)]
        left, right = [], []
        while L or R:
            if L and R:
                side = ex.choose(2, 'side')
            else:
                side = 0 if L else 1
            tag, _ = (L if side == 0 else R).pop(0)
            idn += 1
            if tag == 'L':
                k = ex.fresh_int('u64', 'lk%d' % idn)
                item = Agg('tuple', None, [k, Int('u64', idn)])
                left.append(item)
                script.append(hlib.se('Item', be('Left', item)))
            elif tag == 'R':
                k = ex.fresh_int('u64', 'rk%d' % idn)
                item = Agg('tuple', None, [k, Int('u64', idn)])
                right.append(item)
                script.append(hlib.se('Item', be('Right', item)))
            elif tag == 'LE':
                script.append(hlib.se('Item', be('LeftEnd')))
            else:
                script.append(hlib.se('Item', be('RightEnd')))
        script.append(hlib.se('FlushAndRestart'))
        meta.append((left, right))
    script.append(hlib.se('Terminate'))
    return script, meta


def _native_join(ex, algo, variant, script):
    """run the real join operator (replay/ops_join_*.rs) on the concretised script"""
    from mirsym.executor import RustPanic
    args = [2, {'hash': 0, 'sort_merge': 1}[algo], {'Inner': 0, 'Left': 1, 'Outer': 2}[variant]]
    for e in script:
        if e.variant == 'Item':
            b = e.fields[0]
            if b.variant in ('Left', 'Right'):
                args += [10 if b.variant == 'Left' else 11, hlib.concrete_int(ex, b.fields[0].fields[0]),
                         b.fields[0].fields[1].v]
            else:
                args.append(12 if b.variant == 'LeftEnd' else 13)
        else:
            args.append(hlib.SE_VARIANTS[e.variant])
    runner, prof = ex.env['native']
    ex.env['native_used'] = True
    txt = runner('join', args)[prof]
    ex.env['native_out'] = txt
    if txt == 'PANIC':
        raise RustPanic('the real join operator panicked on this input')
    out = []
    for tok in txt.split():
        if tok == 'OVERRUN' or tok.startswith(('BADARGS', 'UNKNOWN')):
            raise Violation('native join run: ' + txt)
        if tok.startswith('J('):
            k, l, r = tok[2:-1].split(';')
            mk = lambda v: none() if v == '-' else some(Agg('tuple', None, [Int('u64', int(k)), Int('u64', int(v))]))
            out.append(hlib.se('Item', Agg('tuple', None, [Int('u64', int(k)), Agg('tuple', None, [mk(l), mk(r)])])))
        else:
            out.append(hlib.parse_token(tok))
    ex.env['last_output'] = out
    return out


def _native_keyed_join(ex, variant, script):
    """public-API replay (kind `pipe_keyed_join`): group_by(key).join / join_outer in a real job with one replica; the two
    sources are paced so that items and ends of the sides reach the join in the order of the (single-iteration) script"""
    from mirsym.executor import RustPanic
    ev = []
    for e in script:
        if e.variant == 'Item':
            b = e.fields[0]
            if b.variant in ('Left', 'Right'):
                ev += [0 if b.variant == 'Left' else 1, hlib.concrete_int(ex, b.fields[0].fields[0]), b.fields[0].fields[1].v]
            else:
                ev += [2 if b.variant == 'LeftEnd' else 3, 0, 0]
        elif e.variant == 'FlushAndRestart':
            break
    if sum(1 for e in script if e.variant == 'FlushAndRestart') != 1:
        raise Unsupported('native keyed join replay covers one iteration only')
    runner, prof = ex.env['native']
    ex.env['native_used'] = True
    txt = runner('pipe_keyed_join', [{'Inner': 0, 'Outer': 2}[variant], len(ev) // 3] + ev, timeout=120)[prof]
    ex.env['native_out'] = txt
    if txt == 'PANIC':
        raise RustPanic('the real keyed join job panicked on this input')
    if txt.startswith(('BADARGS', 'UNKNOWN', 'NORESULT', 'NOOUTPUT')):
        raise Unsupported('native driver: ' + txt)
    if txt.startswith('TIMEOUT'):
        raise Violation('the real keyed join job does not terminate', hlib._wit(ex))
    out = []
    for tok in txt.split():
        if tok == '-':
            continue
        k, rest = tok.split(':')
        l, r = rest.split('-')
        mk = lambda v: none() if v == '_' else some(Int('u64', int(v)))
        out.append(hlib.se('Item', Agg('tuple', None, [Int('u64', int(k)), Agg('tuple', None, [mk(l), mk(r)])])))
    out += [hlib.se('FlushAndRestart'), hlib.se('Terminate')]
    return out


def join_harness(w, algo, variant, nl, nr, iters):
    tb = {'hash': 'JoinLocalHash', 'sort_merge': 'JoinLocalSortMerge', 'keyed': 'JoinKeyedOuter' if variant != 'Inner'
          else 'JoinKeyedInner'}[algo]
    new = w.impls[(None, tb)]['new'][0]
    nxt = w.impls[('Operator', tb)]['next'][0]
    hlib.check_se_table(w)
    if dict(w.src.enum_variants('BinaryElement')) != BEV:
        raise Unsupported('BinaryElement variants changed')
    jv = dict(w.src.enum_variants('JoinVariant'))

    def h(ex):
        ex.env['hash_order'] = 'any'
        script, meta = join_script(ex, nl, nr, iters)
        if ex.env.get('native') and algo == 'keyed':
            out = _native_keyed_join(ex, variant, script)
        elif ex.env.get('native'):
            out = _native_join(ex, algo, variant, script)
        else:
            if algo == 'keyed':
                ex.env['generics'] = {'K': 'u64'}
                args = [hlib.Upstream(script)] + ([Enum('JoinVariant', variant, jv[variant], [])] if variant != 'Inner' else [])
            else:
                args = [hlib.Upstream(script), Enum('JoinVariant', variant, jv[variant], []), KeyOf(), KeyOf()]
            op = ex.call_function(new, args)
            out = hlib.drive(ex, nxt, [op], 4 * (nl + 1) * (nr + 1) * iters + 8)
        sx = lambda: {'algo': algo, 'variant': variant, 'script': [repr(e) for e in script],
                      'output': [repr(e) for e in out]}
        hlib.check_grammar(ex, out, iters, 'join output')
        outs = hlib.split_iterations(out)
        for k, (left, right) in enumerate(meta):
            want = []
            matched_r = set()
            for l in left:
                m = False
                for r in right:
                    if ex.branch(ex.binop('Eq', l.fields[0], r.fields[0]), 'oracle: keys equal'):
                        want.append((l.fields[1].v, r.fields[1].v))
                        matched_r.add(r.fields[1].v)
                        m = True
                if not m and variant in ('Left', 'Outer'):
                    want.append((l.fields[1].v, None))
            if variant == 'Outer':
                for r in right:
                    if r.fields[1].v not in matched_r:
                        want.append((None, r.fields[1].v))
            got = []
            keyof = {x.fields[1].v: x.fields[0] for x in left + right}
            for e in outs[k]:
                if e.variant != 'Item':
                    raise Violation('join emitted %s inside an iteration' % e.variant, hlib._wit(ex), sx())
                key, pair = e.fields[0].fields
                lo, ro = pair.fields

                def ident(o):
                    # hash / sort-merge joins carry the whole (key, id) item, the keyed join the value (id) only;
                    # inner variants have no Option around it
                    if isinstance(o, Enum):
                        if o.variant != 'Some':
                            return None
                        o = o.fields[0]
                    return o.fields[1].v if isinstance(o, Agg) else o.v
                li, ri = ident(lo), ident(ro)
                got.append((li, ri))
                for i in (li, ri):
                    if i is not None:
                        if i not in keyof:
                            raise Violation('join output contains an element of another iteration', hlib._wit(ex), sx())
                        check(ex, zbool(ex.binop('Eq', key, keyof[i])), 'join output key differs from the element key', sx)
            ks = lambda t: (t[0] is None, t[0] or 0, t[1] is None, t[1] or 0)
            if sorted(got, key=ks) != sorted(want, key=ks):
                raise Violation('join output is not the relational %s join (got %s, expected %s)' %
                                (variant, sorted(got, key=ks), sorted(want, key=ks)), hlib._wit(ex), sx())
            if any(a is not None and b is not None for a, b in want):
                hlib.cover(ex, 'matched_pair')
        return sx()
    return h


def join_tasks(tier, role):
    ts = []
    n = (2, 2, 1)
    for algo in ('hash', 'sort_merge'):
        for variant in ('Inner', 'Left', 'Outer'):
            ts.append(Task('join_%s_%s' % (algo, variant.lower()), 'join_harness',
                           {'algo': algo, 'variant': variant, 'nl': n[0], 'nr': n[1], 'iters': n[2]},
                           bounds='%s join, %s: <=%d left and <=%d right items with symbolic keys, every interleaving '
                                  'of the sides and every position of LeftEnd/RightEnd, %d iteration(s), hash map '
                                  'order arbitrary' % (algo, variant, n[0], n[1], n[2]),
                           role=role, opts={'covers': ['matched_pair']}, budget=300))
    # nothing carried over into the next iteration (C05): two iterations, small sides
    for algo in ('hash', 'sort_merge'):
        ts.append(Task('join_%s_outer_2iter' % algo, 'join_harness',
                       {'algo': algo, 'variant': 'Outer', 'nl': 1, 'nr': 2, 'iters': 2},
                       bounds='%s outer join, 2 iterations x (<=1 left, <=2 right) items, symbolic keys' % algo,
                       role=role, opts={'covers': ['matched_pair']}, budget=300))
    for variant in ('Inner', 'Outer'):
        ts.append(Task('join_keyed_%s' % variant.lower(), 'join_harness',
                       {'algo': 'keyed', 'variant': variant, 'nl': 2, 'nr': 2, 'iters': 1},
                       bounds='KeyedStream::join%s operator (JoinKeyed%s): <=2 left and <=2 right (key, value) items with '
                              'symbolic keys, every interleaving of the sides and every position of LeftEnd/RightEnd, 1 '
                              'iteration' % ('_outer' if variant == 'Outer' else '', variant if variant == 'Inner' else 'Outer'),
                       role=role, opts={'covers': ['matched_pair']}, budget=300))
    ts.append(Task('join_keyed_outer_2iter', 'join_harness', {'algo': 'keyed', 'variant': 'Outer', 'nl': 1, 'nr': 2, 'iters': 2},
                   bounds='keyed outer join, 2 iterations x (<=1 left, <=2 right) items, symbolic keys', role=role,
                   opts={'covers': ['matched_pair']}, budget=300))
    if tier != 'quick':
        for algo in ('hash', 'sort_merge'):
            ts.append(Task('join_%s_outer_3x2' % algo, 'join_harness',
                           {'algo': algo, 'variant': 'Outer', 'nl': 3, 'nr': 2, 'iters': 1},
                           bounds='%s outer join 3x2, 1 iteration' % algo, role=role,
                           opts={'covers': ['matched_pair']}, budget=300))
    return ts


# ------------------------------------------------------------------------------------ interval join

def _native_interval(ex, lower, upper, script):
    """the real IntervalJoin on the concretised script (replay kind `interval_join`, SPEC sixth batch)"""
    import re
    from mirsym.executor import RustPanic
    args = [2, hlib.concrete_int(ex, lower), hlib.concrete_int(ex, upper)]
    tags = hlib.SE_VARIANTS
    for e in script:
        args.append(tags[e.variant])
        if e.variant == 'Timestamped':
            key, me = e.fields[0].fields
            args += [hlib.concrete_int(ex, key), 2 * me.fields[0].v + (0 if me.variant == 'Left' else 1),
                     hlib.concrete_int(ex, e.fields[1])]
        elif e.variant == 'Watermark':
            args.append(hlib.concrete_int(ex, e.fields[0]))
    runner, prof = ex.env['native']
    ex.env['native_used'] = True
    txt = runner('interval_join', args)[prof]
    ex.env['native_out'] = txt
    if txt == 'PANIC':
        raise RustPanic('the real IntervalJoin panicked on this input')
    if txt.startswith(('BADARGS', 'UNKNOWN', 'NORESULT', 'TIMEOUT')):
        raise Unsupported('native driver: ' + txt)
    out = []
    for tok in txt.split():
        if tok == 'OVERRUN':
            raise Violation('IntervalJoin does not terminate on this input (native run overran)', hlib._wit(ex))
        m = re.match(r'^([TI])\((\d+):(\d+)-(\d+)(?:@(-?\d+))?\)$', tok)
        if m:
            pl = Agg('tuple', None, [Int('u64', int(m.group(2))),
                                     Agg('tuple', None, [Int('u64', int(m.group(3))), Int('u64', int(m.group(4)))])])
            out.append(hlib.se('Timestamped', pl, Int('i64', int(m.group(5)))) if m.group(1) == 'T' else hlib.se('Item', pl))
        else:
            out.append(hlib.parse_token(tok))
    ex.env['last_output'] = out
    return out


def interval_join_harness(w, n, iters):
    new = w.impls[(None, 'IntervalJoin')]['new'][0]
    nxt = w.impls[('Operator', 'IntervalJoin')]['next'][0]
    hlib.check_se_table(w)
    mv = dict(w.src.enum_variants('MergeElement'))

    def h(ex):
        ex.env['hash_order'] = 'any'
        lower = ex.fresh_int('i64', 'lower')
        upper = ex.fresh_int('i64', 'upper')
        ex.assume(z3.And(lower.v >= 0, lower.v <= 3, upper.v >= 0, upper.v <= 3))
        script, meta = [], []
        idn = 0
        for it in range(iters):
            t = Int('i64', 10)
            lefts, rights = [], []
            cnt = ex.choose(n + 1, 'elements')
            for j in range(cnt):
                d = ex.fresh_int('i64', 'dt%d_%d' % (it, j))
                ex.assume(z3.And(d.v >= 0, d.v <= 3))
                t = ex.binop('Add', t, d)
                kind = ex.choose(3, 'left/right/watermark')
                if kind == 2:
                    script.append(hlib.se('Watermark', t))
                    continue
                idn += 1
                key = ex.fresh_int('u64', 'key%d' % idn)
                side = 'Left' if kind == 0 else 'Right'
                item = Agg('tuple', None, [key, Enum('MergeElement', side, mv[side], [Int('u64', idn)])])
                (lefts if kind == 0 else rights).append((key, idn, t))
                script.append(hlib.se('Timestamped', item, t))
            script.append(hlib.se('FlushAndRestart'))
            meta.append((lefts, rights))
        script.append(hlib.se('Terminate'))
        if ex.env.get('native'):
            out = _native_interval(ex, lower, upper, script)
        else:
            op = ex.call_function(new, [hlib.Upstream(script), lower, upper])
            out = hlib.drive(ex, nxt, [op], (n * n + 4) * iters + 6)
        sx = lambda: {'lower': repr(lower), 'upper': repr(upper), 'script': [repr(e) for e in script],
                      'output': [repr(e) for e in out]}
        hlib.check_grammar(ex, out, iters, 'interval join output')
        outs = hlib.split_iterations(out)
        for k, (lefts, rights) in enumerate(meta):
            want = []
            for lk, li, lt in lefts:
                for rk, ri, rt in rights:
                    inside = z3.And(zbool(ex.binop('Eq', lk, rk)), rt.z() >= lt.z() - lower.v, rt.z() <= lt.z() + upper.v)
                    if ex.branch(inside, 'oracle: pair in interval'):
                        want.append((li, ri))
            got = []
            for e in outs[k]:
                if e.variant == 'Watermark':
                    continue
                if e.variant != 'Timestamped':
                    raise Violation('interval join emitted %s' % e.variant, hlib._wit(ex), sx())
                key, pair = e.fields[0].fields
                got.append((pair.fields[0].v, pair.fields[1].v))
            if sorted(got) != sorted(want):
                raise Violation('interval join output %s, expected %s' % (sorted(got), sorted(want)), hlib._wit(ex), sx())
            if want:
                hlib.cover(ex, 'matched_pair')
        return sx()
    return h


def interval_join_tasks(tier, role):
    n, it = (3, 1) if tier == 'quick' else (4, 2)
    return [Task('interval_join_n%d_i%d' % (n, it), 'interval_join_harness', {'n': n, 'iters': it},
                 bounds='IntervalJoin::next, %d iteration(s) x <=%d elements (left / right / watermark) with non-decreasing '
                        'symbolic timestamps >= 10 (steps 0..3), symbolic keys, lower/upper bounds symbolic in 0..3' % (it, n),
                 role=role, opts={'covers': ['matched_pair']}, budget=300)]
