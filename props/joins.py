"""Join operators (C08): JoinLocalHash / JoinLocalSortMerge over every interleaving of the two sides."""
import z3
from lib.runner import Task
from mirsym.values import Int, Agg, Enum, Ref, deep_copy, unit
from mirsym.executor import Unsupported
from mirsym.explore import check, Violation
from mirsym.models import zbool, some, none, deref
from mirsym import hlib
from props.end import KeyOf

BE = 'operator::start::binary::BinaryElement'
BEV = {'Left': 0, 'Right': 1, 'LeftEnd': 2, 'RightEnd': 3}


def be(variant, *f):
    return Enum(BE, variant, BEV[variant], list(f))


def join_script(ex, nl, nr, iters):
    """one iteration = any interleaving of <=nl left and <=nr right items, LeftEnd / RightEnd at any point
    after the side's last item"""
    script, meta = [], []
    idn = 0
    for it in range(iters):
        kl = ex.choose(nl + 1, 'n left')
        kr = ex.choose(nr + 1, 'n right')
        L = [('L', i) for i in range(kl)] + [('LE', None)]
        R = [('R', i) for i in range(kr)] + [('RE', None)]
        left, right = [], []
        while L or R:
            if L and R:
                side = ex.choose(2, 'side')
            else:
                side = 0 if L else 1
            tag, _ = (L if side == 0 else R).pop(0)
            idn += 1
            if tag == 'L':
                k = ex.fresh_int('u64', 'lk%d' % idn)
                item = Agg('tuple', None, [k, Int('u64', idn)])
                left.append(item)
                script.append(hlib.se('Item', be('Left', item)))
            elif tag == 'R':
                k = ex.fresh_int('u64', 'rk%d' % idn)
                item = Agg('tuple', None, [k, Int('u64', idn)])
                right.append(item)
                script.append(hlib.se('Item', be('Right', item)))
            elif tag == 'LE':
                script.append(hlib.se('Item', be('LeftEnd')))
            else:
                script.append(hlib.se('Item', be('RightEnd')))
        script.append(hlib.se('FlushAndRestart'))
        meta.append((left, right))
    script.append(hlib.se('Terminate'))
    return script, meta


def join_harness(w, algo, variant, nl, nr, iters):
    tb = {'hash': 'JoinLocalHash', 'sort_merge': 'JoinLocalSortMerge'}[algo]
    new = w.impls[(None, tb)]['new'][0]
    nxt = w.impls[('Operator', tb)]['next'][0]
    hlib.check_se_table(w)
    if dict(w.src.enum_variants('BinaryElement')) != BEV:
        raise Unsupported('BinaryElement variants changed')
    jv = dict(w.src.enum_variants('JoinVariant'))

    def h(ex):
        ex.env['hash_order'] = 'any'
        script, meta = join_script(ex, nl, nr, iters)
        op = ex.call_function(new, [hlib.Upstream(script), Enum('JoinVariant', variant, jv[variant], []),
                                    KeyOf(), KeyOf()])
        out = hlib.drive(ex, nxt, [op], 4 * (nl + 1) * (nr + 1) * iters + 8)
        sx = lambda: {'algo': algo, 'variant': variant, 'script': [repr(e) for e in script],
                      'output': [repr(e) for e in out]}
        hlib.check_grammar(ex, out, iters, 'join output')
        outs = hlib.split_iterations(out)
        for k, (left, right) in enumerate(meta):
            want = []
            matched_r = set()
            for l in left:
                m = False
                for r in right:
                    if ex.branch(ex.binop('Eq', l.fields[0], r.fields[0]), 'oracle: keys equal'):
                        want.append((l.fields[1].v, r.fields[1].v))
                        matched_r.add(r.fields[1].v)
                        m = True
                if not m and variant in ('Left', 'Outer'):
                    want.append((l.fields[1].v, None))
            if variant == 'Outer':
                for r in right:
                    if r.fields[1].v not in matched_r:
                        want.append((None, r.fields[1].v))
            got = []
            keyof = {x.fields[1].v: x.fields[0] for x in left + right}
            for e in outs[k]:
                if e.variant != 'Item':
                    raise Violation('join emitted %s inside an iteration' % e.variant, hlib._wit(ex), sx())
                key, pair = e.fields[0].fields
                lo, ro = pair.fields
                li = lo.fields[0].fields[1].v if lo.variant == 'Some' else None
                ri = ro.fields[0].fields[1].v if ro.variant == 'Some' else None
                got.append((li, ri))
                for i in (li, ri):
                    if i is not None:
                        if i not in keyof:
                            raise Violation('join output contains an element of another iteration', hlib._wit(ex), sx())
                        check(ex, zbool(ex.binop('Eq', key, keyof[i])), 'join output key differs from the element key', sx)
            ks = lambda t: (t[0] is None, t[0] or 0, t[1] is None, t[1] or 0)
            if sorted(got, key=ks) != sorted(want, key=ks):
                raise Violation('join output is not the relational %s join (got %s, expected %s)' %
                                (variant, sorted(got, key=ks), sorted(want, key=ks)), hlib._wit(ex), sx())
            if any(a is not None and b is not None for a, b in want):
                hlib.cover(ex, 'matched_pair')
        return sx()
    return h


def join_tasks(tier, role):
    ts = []
    n = (2, 2, 1) if tier == 'quick' else (2, 2, 2)
    for algo in ('hash', 'sort_merge'):
        for variant in ('Inner', 'Left', 'Outer'):
            ts.append(Task('join_%s_%s' % (algo, variant.lower()), 'join_harness',
                           {'algo': algo, 'variant': variant, 'nl': n[0], 'nr': n[1], 'iters': n[2]},
                           bounds='%s join, %s: <=%d left and <=%d right items with symbolic keys, every interleaving '
                                  'of the sides and every position of LeftEnd/RightEnd, %d iteration(s), hash map '
                                  'order arbitrary' % (algo, variant, n[0], n[1], n[2]),
                           role=role, opts={'covers': ['matched_pair']}, budget=300))
    # nothing carried over into the next iteration (C05): two iterations, small sides
    for algo in ('hash', 'sort_merge'):
        ts.append(Task('join_%s_outer_2iter' % algo, 'join_harness',
                       {'algo': algo, 'variant': 'Outer', 'nl': 1, 'nr': 2, 'iters': 2},
                       bounds='%s outer join, 2 iterations x (<=1 left, <=2 right) items, symbolic keys' % algo,
                       role=role, opts={'covers': ['matched_pair']}, budget=300))
    if tier != 'quick':
        for algo in ('hash', 'sort_merge'):
            ts.append(Task('join_%s_outer_3x2' % algo, 'join_harness',
                           {'algo': algo, 'variant': 'Outer', 'nl': 3, 'nr': 2, 'iters': 1},
                           bounds='%s outer join 3x2, 1 iteration' % algo, role=role,
                           opts={'covers': ['matched_pair']}, budget=300))
    return ts
