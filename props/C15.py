"""C15 -- parallel sources split their input exactly once across replicas."""
import z3
from mirsym.executor import PyObj, Unsupported
from mirsym.values import Enum
from lib.runner import Task
from mirsym.values import Int, Agg, Opaque, unit
from mirsym.explore import Violation
from mirsym.explore import check
from mirsym.models import zbool

RANGE_TYPES = ['u8', 'u16', 'u32', 'u64', 'usize', 'i8', 'i16', 'i32', 'i64', 'isize']

META = {
    'explanation': 'Range sources: for every instantiation of IntoParallelSource::generate_iterator on Range<T> '
                   '(T in u8..isize) and every concrete number of replicas p in the bound, start, end and a probe '
                   'value x are symbolic; the p sub-ranges are computed by the real MIR and the solver decides '
                   'that x lies in exactly one sub-range iff start <= x < end (disjoint, union = range, '
                   'empty/reversed range yields nothing) and that no call panics.',
    'assumptions': ['peers >= 1 (the scheduler never creates a block with zero replicas)',
                    'index < peers (global replica ids are a bijection onto [0,#replicas): C19)',
                    'usize/isize are 64 bit'],
    'trusted': ['mirsym MIR executor and its std model table', 'z3'],
}


def _gen_fn(w, ty):
    for f in w.impls[('IntoParallelSource', 'Range')]['generate_iterator']:
        if 'Range<%s>' % ty in f.header.split(')')[0]:
            return f
    raise KeyError(ty)


def range_tiling(w, ty, peers, crosscheck=False):
    f = _gen_fn(w, ty)

    def h(ex):
        if crosscheck:
            ex.env['crosscheck'] = True      # two solvers must agree on every hard query
            ex.env['hard_timeout'] = 600
        s = ex.fresh_int(ty, 'start')
        e = ex.fresh_int(ty, 'end')
        x = ex.fresh_int(ty, 'x')
        ex.env['witness_extra'] = {'ty': ty, 'peers': peers}
        cnt = z3.BitVecVal(0, 8)
        outs = []
        for i in range(peers):
            ex.env['witness_extra']['index'] = i
            r = Agg('struct', 'std::ops::Range', [s, e], ['start', 'end'])
            out = ex.call_function(f, [r, Int('u64', i), Int('u64', peers)])
            a, b = out.fields
            inside = z3.And(zbool(ex.binop('Le', a, x)), zbool(ex.binop('Lt', x, b)))
            cnt = cnt + z3.If(inside, z3.BitVecVal(1, 8), z3.BitVecVal(0, 8))
            outs.append(out)
        in_range = z3.And(zbool(ex.binop('Le', s, x)), zbool(ex.binop('Lt', x, e)))
        ex.env.setdefault('covers', {})['end'] = 1

        def extra(m):
            return {'ty': ty, 'peers': peers, 'count': m.eval(cnt, model_completion=True).as_long(),
                    'in_range': bool(z3.is_true(m.eval(in_range, model_completion=True)))}
        check(ex, z3.If(in_range, cnt == 1, cnt == 0),
              'element of the range is not produced by exactly one replica', extra)
        return {'ty': ty, 'peers': peers, 'chunks': [repr(o) for o in outs][:4]}
    return h


def TASKS(tier):
    ps = [1, 2, 3, 4, 5] if tier == 'quick' else [1, 2, 3, 4, 5, 6, 7, 8, 16]
    ts = []
    for ty in RANGE_TYPES:
        for p in ps:
            ts.append(Task('range_%s_p%d' % (ty, p), 'range_tiling', {'ty': ty, 'peers': p, 'crosscheck': tier != 'quick' and p <= 4},
                           bounds='T=%s, peers=%d concrete, all indices 0..peers-1; start,end,x fully symbolic '
                                  '%s' % (ty, p, ty), role='range', opts={'covers': ['end']}, budget=50))
    return ts


def classify(t, v):
    ty = t.params['ty']
    w = v.get('witness') or {}
    s = next((val for k, val in w.items() if k.startswith('start')), None)
    e = next((val for k, val in w.items() if k.startswith('end')), None)
    shape = 'reversed' if (s is not None and e is not None and s >= e) else 'forward'
    kind = 'panic' if v['msg'].startswith('panic') else 'split'
    return 'range/%s/%s/%s' % ('u64' if ty == 'u64' else 'macro', kind, shape)


def replay(t, v):
    """Re-run the witness against the real build: count how many replicas produce x."""
    from lib import common
    if t.factory != 'range_tiling':
        from mirsym.explore import replay_native
        w = common.world()
        return replay_native(w, globals()[t.factory](w, **t.params), v, common.replayer().run)
    ty, p = t.params['ty'], t.params['peers']
    w = v['witness']
    s = next(val for k, val in w.items() if k.startswith('start'))
    e = next(val for k, val in w.items() if k.startswith('end'))
    x = next((val for k, val in w.items() if k.startswith('x#')), 0)
    rp = common.replayer()
    bad = {}
    for prof in ('dev', 'release'):
        cnt = 0
        panic = False
        for i in range(p):
            out = rp.run('range_' + ty, [s, e, i, p])[prof]
            if out == 'PANIC':
                panic = True
                break
            a, b = out.split('..')
            if int(a) <= x < int(b):
                cnt += 1
        want = 1 if s <= x < e else 0
        if panic or cnt != want:
            bad[prof] = 'panic' if panic else 'x=%d produced by %d replicas, expected %d' % (x, cnt, want)
    return (bool(bad), 'range %s %d..%d peers=%d: %s' % (ty, s, e, p, bad or 'real build behaves correctly'))


# ------------------------------------------------------------------------------------ FileSource

def file_source_harness(w, size, replicas):
    """every file content of `size` bytes (each byte symbolic; the code's `== b'\\n'` tests fork) read by
    `replicas` replicas: the union of the emitted lines is exactly the file's lines, each once"""
    from mirsym import hlib
    from mirsym.values import Ref, Opaque
    from mirsym.models import none
    from mirsym.models_coll import VecModel
    from mirsym.explore import Violation
    from props.start import exec_metadata
    setup = w.impls[('Operator', 'FileSource')]['setup'][0]
    nxt = w.impls[('Operator', 'FileSource')]['next'][0]

    def h(ex):
        data = [ex.fresh_int('u8', 'byte%d' % i) for i in range(size)]
        for b in data:
            ex.assume(z3.ULT(b.v, 128))          # the line source reads UTF-8 text: ASCII bytes
        ex.env['file_bytes'] = data
        emitted = []
        if ex.env.get('native'):
            runner, prof = ex.env['native']
            ex.env['native_used'] = True
            vals = [hlib.concrete_int(ex, b) for b in data]
            txt = runner('file_source', [replicas, size] + vals)[prof]
            ex.env['native_out'] = txt
            if txt == 'PANIC' or 'OVERRUN' in txt:
                raise Violation('the real FileSource panicked / did not terminate: %s' % txt, hlib._wit(ex))
            byval = {}
            pos = 0
            for g, sec in enumerate(txt.split('|')):
                for ln in sec.split():
                    emitted.append((g, ln))
            # compare as byte-value lists (positions are not visible natively)
            lines, cur = [], []
            for v in vals:
                cur.append(v)
                if v == 10:
                    lines.append(cur)
                    cur = []
            if cur:
                lines.append(cur)
            want = sorted('[' + ','.join(map(str, l)) + ']' for l in lines)
            if sorted(l for _, l in emitted) != want:
                raise Violation('file lines are not emitted exactly once across the replicas', hlib._wit(ex),
                                {'size': size, 'replicas': replicas, 'bytes': vals, 'emitted': emitted})
            return {'native': txt}
        for g in range(replicas):
            src = hlib.mk_struct(w, 'FileSource', path=Opaque('PathBuf'), reader=none(), current=Int('usize', 0),
                                 end=Int('usize', 0), terminated=False, coord=none())
            md = exec_metadata(w, hlib.coord(w, 0, 0, g), False)
            md.set('global_id', Int('u64', g))
            md.set('replicas', VecModel([hlib.coord(w, 0, 0, i) for i in range(replicas)]))
            holder = [src]
            ex.call_function(setup, [Ref(holder, 0), Ref([md], 0)])
            out = hlib.drive(ex, nxt, holder, size + 4)
            hlib.check_grammar(ex, out, 1, 'FileSource output')
            for e in out:
                if e.variant == 'Item':
                    emitted.append((g, [id_of(b) for b in e.fields[0].items]))
        # the file's lines (forks on bytes the code never looked at)
        lines, cur = [], []
        for b in data:
            cur.append(id_of(b))
            if ex.branch(ex.binop('Eq', b, Int('u8', 10)), 'oracle: newline'):
                lines.append(cur)
                cur = []
        if cur:
            lines.append(cur)
        got = sorted(l for _, l in emitted)
        if got != sorted(lines):
            raise Violation('file lines are not emitted exactly once across the replicas', hlib._wit(ex),
                            {'size': size, 'replicas': replicas, 'lines': lines, 'emitted': emitted})
        if len(lines) > 1:
            hlib.cover(ex, 'multi_line')
        return {'size': size, 'replicas': replicas, 'lines': lines, 'emitted': emitted}
    return h


def id_of(b):
    return str(b.v)


_range_tasks = TASKS


def TASKS(tier):     # noqa: F811
    ts = _range_tasks(tier)
    sizes = range(0, 6) if tier == 'quick' else range(0, 9)
    reps = [1, 2, 3, 4] if tier == 'quick' else [1, 2, 3, 4, 5, 8, 9]
    for n in sizes:
        for r in reps:
            ts.append(Task('file_%db_%dr' % (n, r), 'file_source_harness', {'size': n, 'replicas': r},
                           bounds='FileSource::setup+next on every replica; file of %d symbolic bytes (newline '
                                  'positions decided by the solver on each path), %d replicas' % (n, r),
                           role='file', opts={'covers': ['multi_line'] if n >= 3 else []}, budget=400))
    return ts


_range_classify = classify


def classify(t, v):   # noqa: F811
    if t.factory == 'file_source_harness':
        return 'file/' + v['msg'][:50]
    if t.factory != 'range_tiling':
        return t.role + '/' + v['msg'][:50]
    return _range_classify(t, v)


# ------------------------------------------------------------------------------------ non-parallel sources

class ChanRx(PyObj):
    """flume::Receiver of a ChannelSource: `items` are delivered in order; the producer may be slow
    (try_recv answers Empty for a chosen number of polls before each item) and disconnects at the end."""
    name = 'Receiver'

    def __init__(self, items):
        self.items = list(items)
        self.empties = None
        self.flushed = True        # FlushBatch emitted since the last delivered item?
        self.blocking_without_flush = False

    def trait_call(self, ex, trait, method, args):
        from mirsym.models import ok, err
        if method == 'try_recv':
            if self.empties is None:
                self.empties = [0, 1, 8, 9, 10][ex.choose(5, 'polls while empty')]
            if self.empties > 0:
                self.empties -= 1
                return err(Enum('flume::TryRecvError', 'Empty', 0, []))
            self.empties = None
            if self.items:
                self.flushed = False
                return ok(self.items.pop(0))
            return err(Enum('flume::TryRecvError', 'Disconnected', 1, []))
        if method == 'recv':
            if not self.flushed:
                self.blocking_without_flush = True
            self.empties = None
            if self.items:
                self.flushed = False
                return ok(self.items.pop(0))
            return err(Enum('flume::RecvError', 'Disconnected', 0, []))
        raise Unsupported('ChanRx ' + method)


from mirsym.executor import PyObj, Unsupported     # noqa: E402
from mirsym.values import Enum                      # noqa: E402


def _native_channel(ex, rx, n):
    """real ChannelSource with a slow producer: a model schedule in which the source runs out of polls before an item
    arrives (any number of empty polls: the real source spins through its retries in microseconds) becomes a 100 ms pause before that item; the oracle is the observable consequence:
    a FlushBatch between the previous item and an item that arrived after such a pause"""
    from mirsym.explore import Violation
    delays = []
    for i in range(n):
        k = [0, 1, 8, 9, 10][ex.choose(5, 'polls while empty')]
        delays.append(100 if k >= 1 else 0)
    k = [0, 1, 8, 9, 10][ex.choose(5, 'polls while empty')]
    delays.append(100 if k >= 1 else 0)       # pause before the channel is closed
    runner, prof = ex.env['native']
    ex.env['native_used'] = True
    txt = runner('channel_source', [n] + delays)[prof]
    ex.env['native_out'] = txt
    toks = txt.split()
    if [t for t in toks if t.startswith('I(')] != ['I(%d)' % (i + 1) for i in range(n)] or toks[-2:] != ['F', 'E']:
        raise Violation('ChannelSource output is not all items once, then FlushAndRestart, Terminate: ' + txt)
    for i in range(n + 1):
        if delays[i] > 0:
            j = toks.index('I(%d)' % (i + 1)) if i < n else len(toks) - 2
            if j == 0 or toks[j - 1] != 'B':
                raise Violation('ChannelSource blocks on the channel without having emitted FlushBatch after the last item: '
                                'buffered elements downstream are withheld (native output: %s)' % txt)
    return {'native': txt}


def channel_source_harness(w, n):
    from mirsym import hlib
    from mirsym.values import Ref
    from mirsym.explore import Violation
    nxt = w.impls[('Operator', 'ChannelSource')]['next'][0]

    def h(ex):
        rx = ChanRx([Int('u64', i + 1) for i in range(n)])
        if ex.env.get('native'):
            return _native_channel(ex, rx, n)
        src = hlib.mk_struct(w, 'ChannelSource', rx=rx, terminated=False, retry_count=Int('u8', 0))
        holder = [src]
        out = []
        for _ in range(4 * n + 40):
            el = ex.call_function(nxt, [Ref(holder, 0)])
            if el.variant == 'FlushBatch':
                rx.flushed = True
            out.append(el)
            if el.variant == 'Terminate':
                break
        else:
            raise Violation('ChannelSource does not terminate after the channel is closed', hlib._wit(ex))
        sx = {'n': n, 'output': [repr(e) for e in out]}
        if rx.blocking_without_flush:
            raise Violation('ChannelSource blocks on the channel without having emitted FlushBatch after the last '
                            'item: buffered elements downstream are withheld', hlib._wit(ex), sx)
        kinds = [e.variant for e in out if e.variant != 'FlushBatch']
        if kinds != ['Item'] * n + ['FlushAndRestart', 'Terminate']:
            raise Violation('ChannelSource output is not all items once, then FlushAndRestart, Terminate',
                            hlib._wit(ex), sx)
        if [e.fields[0].v for e in out if e.variant == 'Item'] != list(range(1, n + 1)):
            raise Violation('ChannelSource lost, duplicated or reordered items', hlib._wit(ex), sx)
        if any(e.variant == 'FlushBatch' for e in out):
            hlib.cover(ex, 'flush_batch')
        return sx
    return h


def iterator_source_harness(w, n):
    from mirsym import hlib
    from mirsym.values import Ref
    from mirsym.explore import Violation
    from mirsym.models_iter import ListIter
    new = w.impls[(None, 'IteratorSource')]['new'][0]
    nxt = w.impls[('Operator', 'IteratorSource')]['next'][0]

    def h(ex):
        items = [ex.fresh_int('u64', 'item%d' % i) for i in range(n)]
        if ex.env.get('native'):
            runner, prof = ex.env['native']
            ex.env['native_used'] = True
            conc = [hlib.concrete_int(ex, x) for x in items]
            txt = runner('iterator_source', [n] + conc)[prof]
            ex.env['native_out'] = txt
            if txt == 'PANIC' or txt.startswith(('BADARGS', 'UNKNOWN', 'NORESULT')):
                raise Unsupported('native driver: ' + txt)
            if txt.split()[-1:] == ['OVERRUN']:
                raise Violation('IteratorSource does not terminate (native output: %s)' % txt, hlib._wit(ex))
            out = [hlib.parse_token(t) for t in txt.split()]
            ex.env['last_output'] = out
            items = [Int('u64', c) for c in conc]
        else:
            src = ex.call_function(new, [ListIter(items)])
            out = hlib.drive(ex, nxt, [src], n + 4)
        hlib.check_grammar(ex, out, 1, 'IteratorSource output')
        data = [e for e in out if e.variant == 'Item']
        if len(data) != n or any(a.fields[0].v is not b.v and str(a.fields[0].v) != str(b.v) for a, b in zip(data, items)):
            raise Violation('IteratorSource does not emit every item exactly once in order', hlib._wit(ex),
                            {'output': [repr(e) for e in out]})
        hlib.cover(ex, 'end')
        return {'n': n, 'output': [repr(e) for e in out]}
    return h


_file_tasks = TASKS


def TASKS(tier):     # noqa: F811
    ts = _file_tasks(tier)
    for n in ([0, 2] if tier == 'quick' else [0, 1, 2, 3, 4]):
        ts.append(Task('channel_source_%d' % n, 'channel_source_harness', {'n': n},
                       bounds='ChannelSource::next until Terminate, %d items, before each item the channel answers '
                              'Empty for 0/1/8/9/10 polls, then disconnects' % n, role='channel_source',
                       opts={'covers': ['flush_batch'] if n else []}, budget=300))
        ts.append(Task('iterator_source_%d' % n, 'iterator_source_harness', {'n': n},
                       bounds='IteratorSource over %d symbolic items' % n, role='iterator_source',
                       opts={'covers': ['end']}))
    return ts


# ------------------------------------------------------------------------------------ CSV source

class CsvBuilder(PyObj):
    """csv::ReaderBuilder: only has_headers matters to the model of the reader"""
    name = 'ReaderBuilder'

    def __init__(self):
        self.has_headers = True

    def trait_call(self, ex, trait, method, args):
        from mirsym.values import Ref
        if method == 'has_headers':
            self.has_headers = bool(args[1]) if isinstance(args[1], bool) else ex.branch(args[1], 'has_headers')
        if method == 'from_reader':
            return CsvReader(args[1], self.has_headers)
        return args[0]          # the builder methods return &mut Self


class CsvHeaderReader(PyObj):
    """csv::Reader over the header line only (used to parse the headers)"""
    name = 'Reader'

    def trait_call(self, ex, trait, method, args):
        from mirsym.values import Ref, Opaque
        from mirsym.models import ok
        if method == 'byte_headers':
            return ok(Ref([Opaque('ByteRecord(headers)')], 0))
        return NotImplemented


class CsvRecordBuf(PyObj):
    name = 'ByteRecord'

    def __init__(self):
        self.cur = None

    def trait_call(self, ex, trait, method, args):
        from mirsym.models import ok
        from mirsym.models_coll import VecModel
        if method == 'deserialize':
            return ok(VecModel(list(self.cur)))
        return NotImplemented


class CsvReader(PyObj):
    """Model of csv::Reader<R> (csv 1.3 `read_byte_record`, csv-core record splitting) for unquoted data: the byte
    stream is pulled through the REAL `<LimitedReader<_> as Read>::read`; records are the non-empty maximal runs of
    non-terminator bytes (terminator CRLF: `\\r` and `\\n` both end a record, empty lines are skipped, a last record
    without terminator counts); header handling as in csv::Reader::read_byte_record"""
    name = 'Reader'

    def __init__(self, inner, has_headers):
        self.inner = [inner]
        self.has_headers = has_headers
        self.headers_set = False
        self.records = None
        self.k = 0

    def _load(self, ex):
        from mirsym.values import Ref, SliceRef
        from mirsym.models import deref
        rd = [f for f in ex.w.prog.functions if f.name.endswith('::read') and 'csv.rs' in f.name]
        if len(rd) != 1:
            raise Unsupported('LimitedReader::read not found')
        stream = []
        total = len(ex.env['file_bytes'])
        for _ in range(total + 2):
            scratch = [Int('u8', 0) for _ in range(total + 1)]
            r = ex.call_function(rd[0], [Ref(self.inner, 0), SliceRef(scratch, 0, len(scratch))])
            if r.variant != 'Ok':
                raise Unsupported('LimitedReader::read failed')
            n = ex.concretize(r.fields[0])
            if n == 0:
                break
            stream += scratch[:n]
        else:
            raise Violation('LimitedReader keeps returning data')
        recs, cur = [], []
        for b in stream:
            is_nl = ex.branch(ex.binop('Eq', b, Int('u8', 10)), 'csv: newline')
            is_cr = (not is_nl) and ex.branch(ex.binop('Eq', b, Int('u8', 13)), 'csv: carriage return')
            if is_nl or is_cr:
                if cur:
                    recs.append(cur)
                cur = []
            else:
                cur.append(b)
        if cur:
            recs.append(cur)
        self.records = recs

    def _read_impl(self, ex, buf):
        if self.records is None:
            self._load(ex)
        if self.k >= len(self.records):
            return False
        buf.cur = self.records[self.k]
        self.k += 1
        return True

    def trait_call(self, ex, trait, method, args):
        from mirsym.models import ok, deref
        if method == 'set_byte_headers':
            self.headers_set = True
            return unit()
        if method == 'read_byte_record':
            buf = deref(args[1])
            got = self._read_impl(ex, buf)
            if not self.headers_set:
                self.headers_set = True
                if self.has_headers:
                    got = self._read_impl(ex, buf)       # the first record was the header row: skip it
            return ok(got)
        return NotImplemented


def _install_csv_models(w):
    from mirsym.models import ok
    M = w.models
    if 'ReaderBuilder::new' in M:
        return

    class OpenOpts(PyObj):
        name = 'OpenOptions'

        def trait_call(self, ex, trait, method, args):
            if method == 'open':
                return M['File::open'](ex, None, args[1:])
            return args[0]
    M['File::options'] = lambda ex, c, a: OpenOpts()
    M['ReaderBuilder::new'] = lambda ex, c, a: CsvBuilder()
    M['Reader::from_reader'] = lambda ex, c, a: CsvHeaderReader()
    M['<ByteRecord as ToOwned>::to_owned'] = lambda ex, c, a: Opaque('ByteRecord(headers)')

    def bufreader_read(ex, c, a):
        """<BufReader<File> as Read>::read: copies as many bytes as fit (a read may return fewer; returning all that
        is available is one legal behaviour and the one a regular file shows)"""
        from mirsym.models import deref
        f = deref(a[0])
        buf = a[1]
        n = min(len(buf), len(f.data) - f.pos)
        for i in range(n):
            buf.items[buf.lo + i] = f.data[f.pos + i]
        f.pos += n
        return ok(Int('usize', n))
    M['<BufReader as Read>::read'] = bufreader_read
    M['<File as Read>::read'] = bufreader_read


def csv_source_harness(w, size, replicas, has_headers, crlf=False):
    """every file content of `size` bytes over the alphabet {'7', '\\n'} (+ '\\r' directly before '\\n' with `crlf`)
    read by `replicas` replicas: the records of the body (everything after the header line when has_headers) are
    emitted exactly once across the replicas"""
    from mirsym import hlib
    from mirsym.values import Ref, Opaque, Enum, Agg
    from mirsym.models import none
    from mirsym.models_coll import VecModel
    from mirsym.explore import Violation
    from props.start import exec_metadata
    setup = w.impls[('Operator', 'CsvSource')]['setup'][0]
    nxt = w.impls[('Operator', 'CsvSource')]['next'][0]
    _install_csv_models(w)

    def h(ex):
        data = [ex.fresh_int('u8', 'byte%d' % i) for i in range(size)]
        for i, b in enumerate(data):
            opts = [b.v == 0x37, b.v == 10]
            if crlf and i + 1 < size:
                opts.append(z3.And(b.v == 13, data[i + 1].v == 10))
            ex.assume(z3.Or(*opts))
        ex.env['file_bytes'] = data
        emitted = []
        # the records the job must deliver: body = after the first '\n' when the file has a header line
        def oracle_records(is_nl, is_cr):
            body_from = 0
            if has_headers:
                body_from = size
                for i in range(size):
                    if is_nl(i):
                        body_from = i + 1
                        break
            recs, cur = [], []
            for i in range(body_from, size):
                if is_nl(i) or is_cr(i):
                    if cur:
                        recs.append(cur)
                    cur = []
                else:
                    cur.append(i)
            if cur:
                recs.append(cur)
            return recs
        if ex.env.get('native'):
            runner, prof = ex.env['native']
            ex.env['native_used'] = True
            vals = [hlib.concrete_int(ex, b) for b in data]
            txt = runner('csv_source', [replicas, int(has_headers), size] + vals)[prof]
            ex.env['native_out'] = txt
            if txt == 'PANIC' or 'OVERRUN' in txt or txt.startswith(('BADARGS', 'UNKNOWN', 'NORESULT')):
                raise Violation('the real CsvSource panicked / did not terminate: %s' % txt, hlib._wit(ex))
            got = sorted(tok for sec in txt.split('|') for tok in sec.split())
            recs = oracle_records(lambda i: vals[i] == 10, lambda i: vals[i] == 13)
            want = sorted(''.join(chr(vals[i]) for i in r) for r in recs)
            if got != want:
                raise Violation('CSV records are not emitted exactly once across the replicas (got %s, expected %s)' %
                                (got, want), hlib._wit(ex), {'size': size, 'replicas': replicas, 'bytes': vals, 'native': txt})
            return {'native': txt}
        for g in range(replicas):
            term = Enum('Terminator', 'CRLF', 0, [])
            options = hlib.mk_struct(w, 'CsvOptions', comment=none(), delimiter=Int('u8', 44), double_quote=True,
                                     escape=none(), flexible=False, quote=Int('u8', 34), quoting=True, terminator=term,
                                     trim=Enum('Trim', 'None', 0, []), has_headers=bool(has_headers))
            src = hlib.mk_struct(w, 'CsvSource', path=Opaque('PathBuf'), csv_reader=none(), options=options,
                                 terminated=False, _out=Agg('struct', 'PhantomData', [], []), buf=CsvRecordBuf())
            md = exec_metadata(w, hlib.coord(w, 0, 0, g), False)
            md.set('global_id', Int('u64', g))
            md.set('replicas', VecModel([hlib.coord(w, 0, 0, i) for i in range(replicas)]))
            holder = [src]
            ex.call_function(setup, [Ref(holder, 0), Ref([md], 0)])
            out = hlib.drive(ex, nxt, holder, size + 4)
            hlib.check_grammar(ex, out, 1, 'CsvSource output')
            for e in out:
                if e.variant == 'Item':
                    emitted.append((g, [id_of(b) for b in e.fields[0].items]))
        recs = oracle_records(lambda i: ex.branch(ex.binop('Eq', data[i], Int('u8', 10)), 'oracle: newline'),
                              lambda i: ex.branch(ex.binop('Eq', data[i], Int('u8', 13)), 'oracle: cr'))
        want = sorted([id_of(data[i]) for i in r] for r in recs)
        got = sorted(l for _, l in emitted)
        sx = {'size': size, 'replicas': replicas, 'has_headers': has_headers, 'records': want, 'emitted': emitted}
        if got != want:
            raise Violation('CSV records are not emitted exactly once across the replicas', hlib._wit(ex), sx)
        if len(want) > 1:
            hlib.cover(ex, 'multi_record')
        return sx
    return h


_pre_csv_tasks = TASKS


def TASKS(tier):     # noqa: F811
    ts = _pre_csv_tasks(tier)
    sizes = range(0, 8) if tier == 'quick' else range(0, 11)
    reps = [1, 2, 3, 4, 5, 9] if tier == 'quick' else [1, 2, 3, 4, 5, 7, 8, 9, 12]
    for hh in (False, True):
        for n in sizes:
            for r in reps:
                crlf = tier != 'quick'
                ts.append(Task('csv_%s_%db_%dr' % ('hdr' if hh else 'nohdr', n, r), 'csv_source_harness',
                               {'size': n, 'replicas': r, 'has_headers': hh, 'crlf': crlf},
                               bounds='CsvSource::setup+next (+ the real LimitedReader) on every replica; file of %d symbolic '
                                      'bytes over {"7", LF%s}, %d replicas, has_headers=%s; csv::Reader modelled (unquoted data)' %
                                      (n, ', CR before LF' if crlf else '', r, hh),
                               role='csv', opts={'covers': ['multi_record'] if n >= 3 + 2 * hh else []}, budget=400))
    return ts
