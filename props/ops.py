"""Harness factories for single operators driven by a symbolic upstream script.
Shared by C05 (grammar), C06 (watermark contract), C07 (aggregation value), C12.. (windows)."""
import z3
from lib.runner import Task
from mirsym.values import Int, Agg, Enum, Ref, is_sym, mk_int, unit, deep_copy
from mirsym.executor import PyObj, Unsupported, RustPanic
from mirsym.explore import check, Violation
from mirsym.models import zbool, some, none, deref
from mirsym import hlib


class UF(PyObj):
    """User function `Fn(&mut Acc, Item)`: acc := F(acc, item) for an uninterpreted F (so the result
    term records exactly which items were folded, in which order)."""
    name = 'VerifFoldFn'
    F = z3.Function('userF', z3.BitVecSort(64), z3.BitVecSort(64), z3.BitVecSort(64))

    def trait_call(self, ex, trait, method, args):
        if trait in ('Fn', 'FnMut', 'FnOnce'):
            acc_ref, item = args[1].fields
            acc = acc_ref.get()
            item = deref(item)
            if ex.env.get('native') or ex.env.get('concrete_fold'):
                acc_ref.set(mk_int('u64', acc.z() * 31 + val64(item) + 1))
            else:
                acc_ref.set(mk_int('u64', UF.F(acc.z(), val64(item))))
            return unit()
        if trait == 'Clone':
            return self
        raise Unsupported('UF %s::%s' % (trait, method))


def val64(v):
    """payload as a 64-bit term"""
    if isinstance(v, Int):
        if v.bits == 64:
            return v.z()
        return z3.ZeroExt(64 - v.bits, v.z())
    raise Unsupported('payload %r' % (v,))


def fold_seq(items, init=0, ex=None):
    acc = z3.BitVecVal(init, 64)
    for it in items:
        if ex is not None and (ex.env.get('native') or ex.env.get('concrete_fold')):
            acc = acc * 31 + val64(it) + 1        # the function the native driver uses (replay/SPEC.md)
        else:
            acc = UF.F(acc, val64(it))
    return acc


def data_items(els):
    return [e for e in els if e.variant in ('Item', 'Timestamped')]


# ------------------------------------------------------------------------------------ Fold

def build_fold(ex, w, up):
    new = w.impls[(None, 'Fold')]['new'][0]
    return ex.call_function(new, [up, Int('u64', 0), UF()])


def fold_harness(w, iters, max_len, kinds='ITW'):
    nxt = w.impls[('Operator', 'Fold')]['next'][0]
    hlib.check_se_table(w)

    def h(ex):
        script = hlib.gen_script(ex, iters, max_len, kinds)
        if ex.env.get('native'):
            out = hlib.native_operator(ex, 'fold', [], script)
        else:
            out = hlib.drive(ex, nxt, [build_fold(ex, w, hlib.Upstream(script))], len(script) + 4)
        hlib.check_grammar(ex, out, iters, 'Fold output')          # C05
        hlib.check_wm_contract(ex, out, 'Fold output')             # C06
        ins, outs = hlib.split_iterations(script), hlib.split_iterations(out)
        for k, (i_it, o_it) in enumerate(zip(ins, outs)):          # C07 + C05 (nothing carried over)
            d = data_items(i_it)
            od = data_items(o_it)
            if not d:
                if od:
                    raise Violation('fold emitted a result for an empty iteration', hlib._wit(ex))
                continue
            hlib.cover(ex, 'nonempty_iteration')
            if len(od) != 1:
                raise Violation('fold emitted %d results for one iteration' % len(od), hlib._wit(ex),
                                {'output': [repr(x) for x in out]})
            res = od[0]
            check(ex, res.fields[0].z() == fold_seq([e.fields[0] for e in d], ex=ex),
                  'fold result differs from the sequential fold of the iteration', {'iteration': k})
            tss = [e.fields[1].v for e in d if e.variant == 'Timestamped']
            if tss:
                if res.variant != 'Timestamped':
                    raise Violation('fold result lost its timestamp', hlib._wit(ex))
                check(ex, res.fields[1].v == hlib.bv_max(tss), 'fold result timestamp is not the max input timestamp')
            elif res.variant != 'Item':
                raise Violation('fold result has a timestamp although no input had one', hlib._wit(ex))
            # results precede watermarks of the iteration? (only order: data, then watermark, then F&R)
        return {'script': [repr(e) for e in script], 'output': [repr(e) for e in out]}
    return h


def fold_tasks(tier, role):
    it, ln = (2, 3) if tier == 'quick' else (2, 4)
    return [Task('fold_i%d_l%d' % (it, ln), 'fold_harness', {'iters': it, 'max_len': ln},
                 bounds='Fold::next driven to Terminate; upstream: %d iterations x <=%d elements, each '
                        'Item/Timestamped/Watermark in any order, payloads u8 and timestamps i64 symbolic '
                        '(watermark contract assumed on the input); user fold = uninterpreted function' % (it, ln),
                 role=role, opts={'covers': ['nonempty_iteration']}, budget=300)]


# ------------------------------------------------------------------------------------ KeyedFold

def kv_payload(key_ty='u64', val_ty='u64'):
    def f(ex, k):
        return Agg('tuple', None, [ex.fresh_int(key_ty, 'k%d' % k), ex.fresh_int(val_ty, 'v%d' % k)])
    return f


def classes(ex, keyed):
    """group [(key Int, x)] by key equality, which is decided on this path; keeps arrival order"""
    groups = []
    for k, x in keyed:
        for g in groups:
            e = ex.binop('Eq', g[0], k)
            if e is True or (e is not False and ex.valid(e)):
                g[1].append(x)
                break
            if e is not False and ex.feasible(e):
                raise Unsupported('key equality not decided on this path')
        else:
            groups.append((k, [x]))
    return groups


def keyed_fold_harness(w, iters, max_len, kinds='ITW', hash_order='any'):
    new = w.impls[(None, 'KeyedFold')]['new'][0]
    nxt = w.impls[('Operator', 'KeyedFold')]['next'][0]
    hlib.check_se_table(w)

    def h(ex):
        ex.env['hash_order'] = hash_order
        script = hlib.gen_script(ex, iters, max_len, kinds, payload=kv_payload())
        if ex.env.get('native'):
            out = hlib.native_operator(ex, 'keyed_fold', [], script, keyed=True)
        else:
            op = ex.call_function(new, [hlib.Upstream(script), Int('u64', 0), UF()])
            out = hlib.drive(ex, nxt, [op], len(script) + 4)
        hlib.check_grammar(ex, out, iters, 'KeyedFold output')
        hlib.check_wm_contract(ex, out, 'KeyedFold output')
        ins, outs = hlib.split_iterations(script), hlib.split_iterations(out)
        for k, (i_it, o_it) in enumerate(zip(ins, outs)):
            d = data_items(i_it)
            od = data_items(o_it)
            groups = classes(ex, [(e.fields[0].fields[0], e) for e in d])
            if len(od) != len(groups):
                raise Violation('keyed fold emitted %d results for %d distinct keys' % (len(od), len(groups)),
                                hlib._wit(ex), {'output': [repr(x) for x in out]})
            if len(groups) > 1:
                hlib.cover(ex, 'two_keys')
            for key, els in groups:
                match = [r for r in od if ex.valid(zbool(ex.binop('Eq', r.fields[0].fields[0], key)))]
                if len(match) != 1:
                    raise Violation('key has %d results in one iteration' % len(match), hlib._wit(ex),
                                    {'output': [repr(x) for x in out]})
                res = match[0]
                check(ex, res.fields[0].fields[1].z() == fold_seq([e.fields[0].fields[1] for e in els], ex=ex),
                      'keyed fold result differs from the sequential fold of that key', {'iteration': k})
                tss = [e.fields[1].v for e in els if e.variant == 'Timestamped']
                if tss:
                    if res.variant != 'Timestamped':
                        raise Violation('keyed fold result lost its timestamp', hlib._wit(ex))
                    check(ex, res.fields[1].v == hlib.bv_max(tss),
                          'keyed fold result timestamp is not the max input timestamp of the key')
                elif res.variant != 'Item':
                    raise Violation('keyed fold result has a timestamp although no input of the key had one',
                                    hlib._wit(ex))
        return {'script': [repr(e) for e in script], 'output': [repr(e) for e in out]}
    return h


def keyed_fold_tasks(tier, role):
    it, ln = (2, 3) if tier == 'quick' else (2, [4, 2])
    return [Task('keyed_fold_i%d_l%s' % (it, str(ln).replace(' ', '').replace('[', '').replace(']', '').replace(',', '-')), 'keyed_fold_harness', {'iters': it, 'max_len': ln},
                 bounds='KeyedFold::next driven to Terminate; upstream: %d iterations x <=%s elements '
                        '(Item/Timestamped/Watermark), keys and values u8 symbolic (every equality pattern), '
                        'HashMap drain in every order; user fold uninterpreted' % (it, ln),
                 role=role, opts={'covers': ['two_keys']}, budget=300)]


# ------------------------------------------------------------------------------------ keyed rich_map state

class CountingFn(PyObj):
    """stateful user function of rich_map: returns (number of calls made on THIS clone, this one included) << 32 | value.
    Cloning copies the current state, as `Clone` of a closure does."""
    name = 'VerifCountingFn'

    def __init__(self, calls=0):
        self.calls = calls

    def clone_model(self, ex=None):
        return CountingFn(self.calls)

    def trait_call(self, ex, trait, method, args):
        if trait == 'Clone':
            return CountingFn(self.calls)
        if trait in ('Fn', 'FnMut', 'FnOnce'):
            self.calls += 1
            tup = args[1].fields[0]                 # ((&K, I),)
            v = tup.fields[1]
            lo = ex.binop('BitAnd', v, Int('u64', 0xffffffff))
            return ex.binop('Add', Int('u64', self.calls << 32), lo)
        raise Unsupported('CountingFn %s::%s' % (trait, method))


def rich_map_harness(w, iters, max_len):
    """keyed rich_map: one output per input, in order, control elements untouched; the state of the user function is per
    key: the n-th element of a key (counted from the start of the stream, or - also accepted - from the start of the
    iteration) is processed by a function that has seen exactly the n-1 earlier elements of that key and no other"""
    new = w.impls[(None, 'RichMap')]['new'][0]
    nxt = w.impls[('Operator', 'RichMap')]['next'][0]
    hlib.check_se_table(w)

    def h(ex):
        ex.env['hash_order'] = 'any'
        script = hlib.gen_script(ex, iters, max_len, 'ITW', payload=kv_payload())
        for e in script:
            if e.variant in ('Item', 'Timestamped'):
                ex.assume(z3.ULT(e.fields[0].fields[1].v, 1 << 32))
        if ex.env.get('native'):
            out = hlib.native_operator(ex, 'rich_map', [], script, keyed=True)
        else:
            op = ex.call_function(new, [hlib.Upstream(script), CountingFn()])
            out = hlib.drive(ex, nxt, [op], len(script) + 4)
        sx = lambda: {'script': [repr(e) for e in script], 'output': [repr(e) for e in out]}
        if [e.variant for e in out] != [e.variant for e in script]:
            raise Violation('rich_map does not produce exactly one output per input, in order, with the control elements '
                            'untouched', hlib._wit(ex), sx())
        seen_stream, seen_iter = [], []
        mode = None
        for i, (a, b) in enumerate(zip(script, out)):
            if a.variant == 'FlushAndRestart':
                seen_iter = []
            if a.variant == 'Watermark':
                check(ex, a.fields[0].v == b.fields[0].v, 'rich_map altered a watermark', sx)
            if a.variant not in ('Item', 'Timestamped'):
                continue
            if a.variant == 'Timestamped':
                check(ex, a.fields[1].v == b.fields[1].v, 'rich_map altered a timestamp', sx)
            key, val = a.fields[0].fields
            check(ex, zbool(ex.binop('Eq', b.fields[0].fields[0], key)), 'rich_map changed the key of an element', sx)
            n_stream = 1 + sum(1 for k in seen_stream if ex.branch(zbool(ex.binop('Eq', k, key)), 'oracle: same key'))
            n_iter = 1 + sum(1 for k in seen_iter if ex.branch(zbool(ex.binop('Eq', k, key)), 'oracle: same key (iteration)'))
            seen_stream.append(key)
            seen_iter.append(key)
            got = b.fields[0].fields[1]
            ok_stream = (got.z() == z3.BitVecVal(n_stream << 32, 64) + val.z())
            ok_iter = (got.z() == z3.BitVecVal(n_iter << 32, 64) + val.z())
            cands = [m for m, c in (('stream', ok_stream), ('iteration', ok_iter)) if mode in (None, m) and ex.valid(c)]
            if not cands:
                raise Violation('keyed rich_map: element %d of the script was processed by a function whose state is not '
                                'that of its key (expected call number %d of the key, value in the low bits)' % (i, n_stream),
                                hlib._wit(ex), sx())
            if n_stream != n_iter:
                mode = cands[0] if len(cands) == 1 else mode
            if n_stream > 1:
                hlib.cover(ex, 'key_seen_again')
        return sx()
    return h


def rich_map_tasks(tier, role):
    it, ln = (2, [3, 2]) if tier == 'quick' else (2, [4, 2])
    return [Task('rich_map_i%d' % it, 'rich_map_harness', {'iters': it, 'max_len': ln},
                 bounds='RichMap::next (keyed rich_map) driven to Terminate; upstream: %d iterations x <=%s elements '
                        '(Item/Timestamped/Watermark), keys symbolic (every equality pattern), values < 2^32; user function = '
                        'call counter per clone' % (it, ln), role=role, opts={'covers': ['key_seen_again']}, budget=300)]


# ------------------------------------------------------------------------------------ windows

class ListAcc(PyObj):
    """WindowAccumulator that records exactly which elements it was given, in order."""
    name = 'VerifListAcc'

    def __init__(self, items=None):
        self.items = list(items or [])

    def trait_call(self, ex, trait, method, args):
        if trait == 'WindowAccumulator' and method == 'process':
            self.items.append(args[1])
            return unit()
        if trait == 'WindowAccumulator' and method == 'output':
            from mirsym.models_coll import VecModel
            return VecModel(self.items)
        if trait == 'Clone':
            return ListAcc(self.items)
        raise Unsupported('ListAcc %s::%s' % (trait, method))

    def __repr__(self):
        return 'ListAcc%r' % (self.items,)


def results_of(ret):
    """normalise a WindowManager::Output (Option<WindowResult> | Vec<WindowResult>) to a list"""
    if isinstance(ret, Enum) and ret.base == 'Option':
        return [ret.fields[0]] if ret.variant == 'Some' else []
    if hasattr(ret, 'items'):
        return list(ret.items)
    raise Unsupported('manager output %r' % (ret,))


def drive_manager(ex, proc, holder, script):
    """feed every element of the script to WindowManager::process; -> [(element index, [results])]"""
    out = []
    for i, el in enumerate(script):
        ret = ex.call_function(proc, [Ref(holder, 0), deep_copy(el)])
        out.append((i, results_of(ret)))
    ex.env['last_output'] = [r for _, rs in out for r in rs + [None]]
    return out


def same_items(ex, got, want, msg, extra=None):
    """got / want: lists of payload Ints; must be equal element-wise"""
    if len(got) != len(want):
        raise Violation(msg + ' (%d elements instead of %d)' % (len(got), len(want)), hlib._wit(ex), extra)
    for g, x in zip(got, want):
        check(ex, zbool(ex.binop('Eq', g, x)), msg, extra)


def count_window_harness(w, size, slide, iters, max_len):
    cw_new = w.impls[(None, 'CountWindow')]['new'][0]
    build = w.impls[('WindowDescription', 'CountWindow')]['build'][0]
    proc = w.impls[('WindowManager', 'CountWindowManager')]['process'][0]
    hlib.check_se_table(w)

    def h(ex):
        exact = ex.choose(2, 'exact') == 1
        descr = ex.call_function(cw_new, [Int('usize', size), Int('usize', slide), exact])
        mgr = ex.call_function(build, [Ref([descr], 0), ListAcc()])
        script = hlib.gen_script(ex, iters, max_len, 'IT/iter', wm_contract=False)
        if ex.env.get('native'):
            outs = hlib.native_manager(ex, 'mgr_count', [size, slide, int(exact)], script)
        else:
            outs = drive_manager(ex, proc, [mgr], script)
        # oracle: per iteration, groups [jS, jS+N) emitted at their N-th element
        pos = 0
        it_elems = []
        nxt_window = 0
        for i, el in enumerate(script):
            res = outs[i][1]
            if el.variant in ('Item', 'Timestamped'):
                it_elems.append(el)
                m = len(it_elems)
                want = []
                if m >= size and (m - size) % slide == 0:
                    j = (m - size) // slide
                    want = [it_elems[j * slide: j * slide + size]]
                    nxt_window = j + 1
                    hlib.cover(ex, 'full_window')
            else:
                want = []
                if el.variant in ('FlushAndRestart', 'Terminate'):
                    if not exact and nxt_window * slide < len(it_elems):
                        want = [it_elems[nxt_window * slide:]]
                        hlib.cover(ex, 'partial_window')
                    it_elems = []
                    nxt_window = 0
            extra = {'size': size, 'slide': slide, 'exact': exact, 'at_element': i,
                     'script': [repr(e) for e in script]}
            if len(res) != len(want):
                raise Violation('count window: %d results at element %d (%s), expected %d' %
                                (len(res), i, el.variant, len(want)), hlib._wit(ex), extra)
            for r, grp in zip(res, want):
                same_items(ex, r.fields[0].items, [g.fields[0] for g in grp],
                           'count window result is not the expected group', extra)
                tss = [g.fields[1].v for g in grp if g.variant == 'Timestamped']
                if tss:
                    if r.variant != 'Timestamped':
                        raise Violation('count window result lost its timestamp', hlib._wit(ex), extra)
                    check(ex, r.fields[1].v == hlib.bv_max(tss), 'count window timestamp is not the group max',
                          extra)
                elif r.variant != 'Item':
                    raise Violation('count window result has a spurious timestamp', hlib._wit(ex), extra)
        return {'size': size, 'slide': slide, 'exact': exact, 'script': [repr(e) for e in script],
                'results': [[repr(r) for r in rs] for _, rs in outs]}
    return h


def count_window_tasks(tier, role):
    ts = []
    grid = [(1, 1), (2, 1), (2, 2), (3, 1), (3, 2), (3, 3), (4, 3)] if tier == 'quick' else \
        [(n, s) for n in (1, 2, 3, 4, 5, 6) for s in range(1, n + 1)]
    for n, s in grid:
        ln = [min(2 * n + 1, 6), 3] if tier == 'quick' else [min(2 * n + 2, 9), 4]
        ts.append(Task('count_n%d_s%d' % (n, s), 'count_window_harness',
                       {'size': n, 'slide': s, 'iters': 2, 'max_len': ln},
                       bounds='CountWindowManager size=%d slide=%d, exact symbolic, 2 iterations x <=%s elements '
                              '(all-Item / all-Timestamped / alternating, payload u8 + timestamps i64 symbolic), '
                              'accumulator records its elements' % (n, s, ln), role=role,
                       opts={'covers': ['full_window']}, budget=150))
    return ts


def id_payload(ex, k):
    """concrete, pairwise distinct payloads: results can be matched to inputs by identity"""
    return Int('u64', k)


TS_BOUND = 1 << 40


def bound_ts(ex, script, bound=TS_BOUND):
    for e in script:
        t = hlib.ts_of(e)
        if t is not None and not t.concrete:
            ex.assume(z3.And(t.v > -bound, t.v < bound))


def event_time_harness(w, size, slide, iters, max_len, base=None):
    sliding = w.impls[(None, 'EventTimeWindow')]['sliding'][0]
    build = w.impls[('WindowDescription', 'EventTimeWindow')]['build'][0]
    proc = w.impls[('WindowManager', 'EventTimeWindowManager')]['process'][0]
    hlib.check_se_table(w)
    maxcov = -(-size // slide)

    def h(ex):
        descr = ex.call_function(sliding, [Int('i64', size), Int('i64', slide)])
        mgr = ex.call_function(build, [Ref([descr], 0), ListAcc()])
        script = hlib.gen_script(ex, iters, max_len, 'TW', payload=id_payload,
                                 ts_span=(2 * size + 2) if base is None else (base, 2 * size + 2))
        if ex.env.get('native'):
            outs = hlib.native_manager(ex, 'mgr_event_time', [size, slide], script)
        else:
            outs = drive_manager(ex, proc, [mgr], script)
        sx = lambda: {'size': size, 'slide': slide, 'script': [repr(e) for e in script],
                      'results': [[repr(r) for r in rs] for _, rs in outs]}
        # per iteration bookkeeping
        elems = {}        # payload id -> ts
        wms = []          # watermarks seen so far in the iteration
        cover_cnt = {}
        for i, el in enumerate(script):
            res = outs[i][1]
            if el.variant == 'Timestamped':
                elems[el.fields[0].v] = el.fields[1]
                cover_cnt[el.fields[0].v] = 0
                if res:
                    raise Violation('event-time window emitted a result on a data element', hlib._wit(ex), sx())
            for r in res:
                if r.variant != 'Timestamped':
                    raise Violation('event-time result without timestamp', hlib._wit(ex), sx())
                end = r.fields[1]
                items = r.fields[0].items
                if not items:
                    raise Violation('empty event-time window result', hlib._wit(ex), sx())
                ids = [x.v for x in items]
                if len(set(ids)) != len(ids):
                    raise Violation('element used twice in one window result', hlib._wit(ex), sx())
                for x in ids:
                    if x not in elems:
                        raise Violation('window result contains an element of another iteration', hlib._wit(ex), sx())
                    cover_cnt[x] += 1
                    t = elems[x]
                    check(ex, z3.And(t.v >= end.v - size, t.v < end.v),
                          'window result mixes elements outside one interval of the window length', sx)
                # firing time
                if el.variant == 'Watermark':
                    hlib.cover(ex, 'fired_on_watermark')
                    check(ex, end.v <= el.fields[0].v,
                          'window fired before a watermark reached its end', sx)
                for wv in wms:
                    check(ex, end.v >= wv.v,
                          'window result emitted later than the first watermark beyond its end', sx)
            if el.variant == 'Watermark':
                wms.append(el.fields[0])
            if el.variant in ('FlushAndRestart', 'Terminate'):
                for x, n in cover_cnt.items():
                    if n < 1:
                        raise Violation('a non-late element is in no window result (lost)', hlib._wit(ex), sx())
                    if n > maxcov:
                        raise Violation('an element is in %d window results (max %d)' % (n, maxcov),
                                        hlib._wit(ex), sx())
                elems, wms, cover_cnt = {}, [], {}
        return sx()
    return h


def event_time_tasks(tier, role):
    ts = []
    grid = [(2, 2), (2, 1), (3, 2), (4, 2)] if tier == 'quick' else \
        [(n, s) for n in (1, 2, 3, 4) for s in range(1, n + 1)]
    bases = [-3, 1000] if tier == 'quick' else [-3, 1000, None]
    for n, s in grid:
        for b in bases:
            ln = (4 if tier == 'quick' else 5) if b is not None else 3
            ts.append(Task('event_time_z%d_s%d_b%s' % (n, s, b), 'event_time_harness',
                           {'size': n, 'slide': s, 'iters': 1, 'max_len': ln, 'base': b},
                           bounds='EventTimeWindowManager size=%d slide=%d; 1 iteration x <=%s elements, each '
                                  'Timestamped or Watermark in any order; timestamps symbolic i64 in '
                                  '[B, B+2*size+2) with B=%s, watermark contract assumed on the input' %
                                  (n, s, ln, 'symbolic, |B| < 2^40' if b is None else b), role=role,
                           opts={'covers': ['fired_on_watermark']}, budget=200))
    return ts


# ------------------------------------------------------------------------------------ WindowOperator

def build_window_op(ex, w, up, kind, p):
    """WindowOperator over `up` with the manager of the given window description and a recording accumulator"""
    from mirsym.models_coll import MapModel, DequeModel
    if kind == 'count':
        new = w.impls[(None, 'CountWindow')]['new'][0]
        descr = ex.call_function(new, [Int('usize', p['size']), Int('usize', p['slide']), p.get('exact', True)])
        build = w.impls[('WindowDescription', 'CountWindow')]['build'][0]
    elif kind == 'event_time':
        new = w.impls[(None, 'EventTimeWindow')]['sliding'][0]
        descr = ex.call_function(new, [Int('i64', p['size']), Int('i64', p['slide'])])
        build = w.impls[('WindowDescription', 'EventTimeWindow')]['build'][0]
    else:
        raise Unsupported(kind)
    init = ex.call_function(build, [Ref([descr], 0), ListAcc()])
    phantom = Agg('struct', 'PhantomData', [], [])
    kwm = hlib.mk_struct(w, 'KeyedWindowManager', windows=MapModel('HashMap'), init=init, _in=phantom, _out=phantom)
    wnew = w.impls[(None, 'WindowOperator')]['new'][0]
    return ex.call_function(wnew, [up, 'verif-window', kwm])


def keyed_id_payload(nkeys):
    def f(ex, k):
        key = ex.choose(nkeys, 'key') if nkeys > 1 else 0
        return Agg('tuple', None, [Int('u64', key), Int('u64', k)])
    return f


def window_op_harness(w, kind, p, iters, max_len, nkeys=2, base=1000):
    nxt = w.impls[('Operator', 'WindowOperator')]['next'][0]
    hlib.check_se_table(w)

    def h(ex):
        ex.env['hash_order'] = 'any'
        kinds = 'TW' if kind == 'event_time' else 'IT/iter'
        span = (base, 2 * p['size'] + 2) if kind == 'event_time' else None
        script = hlib.gen_script(ex, iters, max_len, kinds, payload=keyed_id_payload(nkeys), ts_span=span)
        if ex.env.get('native'):
            prm = [p['size'], p['slide']] + ([int(p.get('exact', True))] if kind == 'count' else [])
            out = hlib.native_operator(ex, 'winop_' + kind, prm, script, keyed=True)
        else:
            op = build_window_op(ex, w, hlib.Upstream(script), kind, p)
            out = hlib.drive(ex, nxt, [op], 4 * len(script) + 4)
        sx = lambda: {'kind': kind, 'params': p, 'script': [repr(e) for e in script],
                      'output': [repr(e) for e in out]}
        hlib.check_grammar(ex, out, iters, 'WindowOperator output')
        hlib.check_wm_contract(ex, out, 'WindowOperator output')
        ins, outs = hlib.split_iterations(script), hlib.split_iterations(out)
        for k, (i_it, o_it) in enumerate(zip(ins, outs)):
            owner = {e.fields[0].fields[1].v: e.fields[0].fields[0].v for e in data_items(i_it)}
            per_key_in = {}
            for e in data_items(i_it):
                per_key_in.setdefault(e.fields[0].fields[0].v, []).append(e)
            per_key_out = {}
            for r in data_items(o_it):
                key = r.fields[0].fields[0].v
                items = r.fields[0].fields[1].items
                for x in items:
                    if x.v not in owner:
                        raise Violation('window result contains an element of another iteration', hlib._wit(ex), sx())
                    if owner[x.v] != key:
                        raise Violation('window result mixes elements of different keys', hlib._wit(ex), sx())
                per_key_out.setdefault(key, []).append(r)
            if len(per_key_in) > 1:
                hlib.cover(ex, 'two_keys')
            if kind == 'count':
                size, slide, exact = p['size'], p['slide'], p.get('exact', True)
                for key, els in per_key_in.items():
                    want = [els[j:j + size] for j in range(0, len(els) - size + 1, slide)]
                    nfull = len(want)
                    if not exact and nfull * slide < len(els):
                        want.append(els[nfull * slide:])
                    got = per_key_out.get(key, [])
                    if len(got) != len(want):
                        raise Violation('count windows of a key: %d results, expected %d' % (len(got), len(want)),
                                        hlib._wit(ex), sx())
                    for r, grp in zip(got, want):
                        if [x.v for x in r.fields[0].fields[1].items] != [g.fields[0].fields[1].v for g in grp]:
                            raise Violation('count window of a key is not the expected group', hlib._wit(ex), sx())
                for key in per_key_out:
                    if key not in per_key_in:
                        raise Violation('result for a key without input', hlib._wit(ex), sx())
            if kind == 'event_time':
                cnt = {}
                for key, rs in per_key_out.items():
                    for r in rs:
                        for x in r.fields[0].fields[1].items:
                            cnt[x.v] = cnt.get(x.v, 0) + 1
                maxcov = -(-p['size'] // p['slide'])
                for e in data_items(i_it):
                    n = cnt.get(e.fields[0].fields[1].v, 0)
                    if n < 1 or n > maxcov:
                        raise Violation('element is in %d event-time window results of its key (1..%d expected)' %
                                        (n, maxcov), hlib._wit(ex), sx())
        return sx()
    return h


def window_op_tasks(tier, role, kinds=('count', 'event_time')):
    ts = []
    cfgs = []
    if 'count' in kinds:
        cfgs += [('count', {'size': 2, 'slide': 1, 'exact': True}), ('count', {'size': 3, 'slide': 2, 'exact': False})]
    if 'event_time' in kinds:
        cfgs += [('event_time', {'size': 2, 'slide': 2}), ('event_time', {'size': 3, 'slide': 2})]
    ln = [3, 1] if tier == 'quick' else [3, 2]
    for kind, p in cfgs:
        nm = 'winop_%s_%s' % (kind, '_'.join('%s%s' % (k[0], v) for k, v in sorted(p.items())))
        ts.append(Task(nm, 'window_op_harness', {'kind': kind, 'p': p, 'iters': 2, 'max_len': ln},
                       bounds='WindowOperator::next over %s windows %s driven to Terminate; 2 keys, 2 iterations x '
                              '<=%s elements, HashMap order arbitrary' % (kind, p, ln), role=role,
                       opts={'covers': ['two_keys']}, budget=200))
    return ts


# ------------------------------------------------------------------------------------ Reorder

def drive_logged(ex, nxt, holder, up, max_out):
    """like hlib.drive, but records how much of the upstream script had been consumed at each output"""
    out, consumed = [], []
    while True:
        el = ex.call_function(nxt, [Ref(holder, 0)])
        out.append(el)
        consumed.append(up.pos)
        if el.variant == 'Terminate':
            return out, consumed
        if len(out) > max_out:
            raise Violation('operator produced more than %d elements without terminating' % max_out,
                            extra={'output': [repr(x) for x in out[:12]]})


def reorder_harness(w, iters, max_len, kinds='TW'):
    new = w.impls[(None, 'Reorder')]['new'][0]
    nxt = w.impls[('Operator', 'Reorder')]['next'][0]
    hlib.check_se_table(w)

    def h(ex):
        script = hlib.gen_script(ex, iters, max_len, kinds, payload=id_payload, ts_span=(1000, 5))
        consumed = None
        if ex.env.get('native'):
            out = hlib.native_operator(ex, 'reorder', [], script)
        else:
            up = hlib.Upstream(script)
            op = ex.call_function(new, [up])
            out, consumed = drive_logged(ex, nxt, [op], up, 2 * len(script) + 4)
        sx = lambda: {'script': [repr(e) for e in script], 'output': [repr(e) for e in out]}
        hlib.check_grammar(ex, out, iters, 'Reorder output')
        hlib.check_wm_contract(ex, out, 'Reorder output')
        ins, outs = hlib.split_iterations(script), hlib.split_iterations(out)
        for k, (i_it, o_it) in enumerate(zip(ins, outs)):
            ids_in = sorted(e.fields[0].v for e in data_items(i_it))
            ids_out = sorted(e.fields[0].v for e in data_items(o_it))
            if ids_in != ids_out:
                raise Violation('reorder lost or duplicated elements', hlib._wit(ex), sx())
            tin = {e.fields[0].v: e.fields[1] for e in i_it if e.variant == 'Timestamped'}
            prev = None
            for e in o_it:
                if e.variant == 'Timestamped':
                    check(ex, e.fields[1].v == tin[e.fields[0].v].v, 'reorder altered a timestamp', sx)
                    if prev is not None:
                        hlib.cover(ex, 'two_sorted')
                        check(ex, prev.v <= e.fields[1].v, 'reorder output is not in non-decreasing timestamp order', sx)
                    prev = e.fields[1]
            win = [e.fields[0].v for e in i_it if e.variant == 'Watermark']
            wout = [e.fields[0].v for e in o_it if e.variant == 'Watermark']
            if len(win) != len(wout):
                raise Violation('reorder lost or duplicated a watermark', hlib._wit(ex), sx())
            for a, b in zip(win, wout):
                check(ex, a == b, 'reorder altered a watermark', sx)
        # release discipline: an element leaves only once a watermark >= its timestamp or the end of the
        # iteration has been received (model run only: needs the consumption log)
        if consumed is not None:
            for el, npos in zip(out, consumed):
                if el.variant != 'Timestamped':
                    continue
                seen = script[:npos]
                me = [i for i, e in enumerate(seen) if e.variant == 'Timestamped' and e.fields[0].v == el.fields[0].v]
                if not me:
                    raise Violation('reorder emitted an element before receiving it', hlib._wit(ex), sx())
                after = seen[me[0] + 1:]
                conds = [True for e in after if e.variant == 'FlushAndRestart']
                if conds:
                    continue
                cov = [zbool(ex.binop('Ge', e.fields[0], el.fields[1])) for e in after if e.variant == 'Watermark']
                check(ex, z3.Or(cov) if cov else False,
                      'reorder released an element before a watermark or the end of the iteration covered it', sx)
        return sx()
    return h


def reorder_tasks(tier, role):
    it, ln = (2, [4, 2]) if tier == 'quick' else (2, [4, 3])
    return [Task('reorder_i%d' % it, 'reorder_harness', {'iters': it, 'max_len': ln},
                 bounds='Reorder::next driven to Terminate; %d iterations x <=%s elements (Timestamped/Watermark in any '
                        'order, contract-respecting), timestamps symbolic in [1000,1005); glidesort modelled as a '
                        'stable sort on the Ord of the operator (timestamp only)' % (it, ln),
                 role=role, opts={'covers': ['two_sorted']}, budget=300)]


# ------------------------------------------------------------------------------------ time-driven windows (C14)

def time_window_harness(w, kind, size, slide, max_len, iters=1, kinds='I'):
    """kind: 'session' (size = gap) | 'processing' (size, slide); durations and instants are u64 ticks.
    The clock returns base + arbitrary non-decreasing offsets (each step 0..2*size+1 ticks)."""
    if kind == 'session':
        new = w.impls[(None, 'SessionWindow')]['new'][0]
        build = w.impls[('WindowDescription', 'SessionWindow')]['build'][0]
        proc = w.impls[('WindowManager', 'SessionWindowManager')]['process'][0]
    else:
        new = w.impls[(None, 'ProcessingTimeWindow')]['sliding'][0]
        build = w.impls[('WindowDescription', 'ProcessingTimeWindow')]['build'][0]
        proc = w.impls[('WindowManager', 'ProcessingTimeWindowManager')]['process'][0]
    hlib.check_se_table(w)
    maxcov = 1 if kind == 'session' else -(-size // slide)

    def h(ex):
        args = [Int('u64', size)] + ([Int('u64', slide)] if kind == 'processing' else [])
        descr = ex.call_function(new, args)
        mgr = ex.call_function(build, [Ref([descr], 0), ListAcc()])
        script = hlib.gen_script(ex, iters, max_len, kinds, payload=id_payload, wm_contract=False)
        # one clock reading per process() call
        clock, t = [], Int('u64', 1000)
        for i in range(len(script)):
            d = ex.fresh_int('u64', 'dt%d' % i)
            ex.assume(z3.ULE(d.v, 2 * size + 1))
            t = ex.binop('Add', t, d)
            clock.append(t)
        ex.env['clock_script'] = list(clock)
        if ex.env.get('native'):
            # real sleeps reproduce the clock script (one tick = 40 ms): reliable away from window boundaries only
            args = [size, slide if kind == 'processing' else 0, len(script)]
            prev = 1000
            for i, e in enumerate(script):
                t = hlib.concrete_int(ex, clock[i])
                args += [t - prev, e.fields[0].v if e.variant == 'Item' else
                         {'FlushAndRestart': -5, 'Terminate': -4, 'FlushBatch': -3, 'Watermark': -2}[e.variant]]
                prev = t
            runner, prof = ex.env['native']
            ex.env['native_used'] = True
            txt = runner('mgr_session' if kind == 'session' else 'mgr_processing', args, timeout=120)[prof]
            ex.env['native_out'] = txt
            if txt == 'PANIC':
                raise RustPanic('the real window manager panicked')
            outs = [(i, [hlib.parse_token(t, True) for t in c.split()]) for i, c in enumerate(txt.split('|'))]
        else:
            outs = drive_manager(ex, proc, [mgr], script)
        sx = lambda: {'kind': kind, 'size': size, 'slide': slide, 'script': [repr(e) for e in script],
                      'clock': [repr(c) for c in clock], 'results': [[repr(r) for r in rs] for _, rs in outs]}
        ids = [e.fields[0].v for e in script if e.variant == 'Item']
        tick = {e.fields[0].v: clock[i] for i, e in enumerate(script) if e.variant == 'Item'}
        cnt = {i: 0 for i in ids}
        # iteration of every call (the FlushAndRestart call closes its own iteration) and of every element:
        # the managers of these windows are kept across iterations (WindowManager::recycle is false), so the
        # second iteration runs on the state the first one left behind
        call_iter, it = [], 0
        for e in script:
            call_iter.append(it)
            if e.variant == 'FlushAndRestart':
                it += 1
        item_iter = {e.fields[0].v: call_iter[i] for i, e in enumerate(script) if e.variant == 'Item'}
        if iters > 1 and len(set(item_iter.values())) > 1:
            hlib.cover(ex, 'two_iterations')
        results = []
        for i, rs in outs:
            for r in rs:
                items = [x.v for x in r.fields[0].items]
                for x in items:
                    if x in item_iter and item_iter[x] != call_iter[i]:
                        raise Violation('window result emitted in iteration %d contains an element of iteration %d' %
                                        (call_iter[i], item_iter[x]), hlib._wit(ex), sx())
                if not items:
                    raise Violation('empty window result', hlib._wit(ex), sx())
                if items != sorted(items) or len(set(items)) != len(items):
                    raise Violation('window result does not keep arrival order', hlib._wit(ex), sx())
                pos = [ids.index(x) for x in items if x in ids]
                if len(pos) == len(items) and pos != list(range(pos[0], pos[0] + len(pos))):
                    raise Violation('window result is not a contiguous run of the arrival sequence', hlib._wit(ex), sx())
                for x in items:
                    if x not in cnt:
                        raise Violation('window result contains an unknown element', hlib._wit(ex), sx())
                    cnt[x] += 1
                results.append(items)
        # everything flushed by the end of the iteration (the FlushAndRestart call), covered 1..maxcov times
        for x, n in cnt.items():
            if n < 1:
                raise Violation('element lost by the %s window (in no result after the end of the iteration)' % kind,
                                hlib._wit(ex), sx())
            if n > maxcov:
                raise Violation('element in %d results (max %d)' % (n, maxcov), hlib._wit(ex), sx())
        if kind == 'session':
            # session semantics away from the boundary: gap exceeded => split, gap not reached => same session
            sess = {x: k for k, its in enumerate(results) for x in its}
            for a, b in zip(ids, ids[1:]):
                if item_iter[a] != item_iter[b]:
                    continue
                diff = tick[b].z() - tick[a].z()
                if sess[a] == sess[b]:
                    check(ex, z3.ULE(diff, size), 'two elements further apart than the gap share a session', sx)
                else:
                    check(ex, z3.UGE(diff, size), 'two elements closer than the gap are in different sessions', sx)
                    hlib.cover(ex, 'split')
        elif len(results) > 1:
            hlib.cover(ex, 'split')
        return sx()
    return h


def time_window_tasks(tier, role):
    ts = []
    L = 4 if tier == 'quick' else 5
    cfgs = [('session', 3, 0), ('processing', 3, 3), ('processing', 4, 2)]
    if tier != 'quick':
        cfgs += [('session', 1, 0), ('processing', 3, 1), ('processing', 5, 2)]
    for kind, size, slide in cfgs[:3]:
        L2 = [2, 2] if tier == 'quick' else [3, 2]
        ts.append(Task('%s_z%d_s%d_2iter' % (kind, size, slide), 'time_window_harness',
                       {'kind': kind, 'size': size, 'slide': slide, 'max_len': L2, 'iters': 2},
                       bounds='%s window manager kept across iterations, size/gap=%d slide=%d ticks; 2 iterations x <=%s '
                              'items; the clock returns arbitrary non-decreasing instants (each step 0..%d ticks, symbolic)' %
                              (kind, size, slide, L2, 2 * size + 1), role=role, opts={'covers': ['two_iterations']},
                       budget=300))
    for kind, size, slide in cfgs[:2]:
        # the managers are also called with Watermark / FlushBatch elements (broadcast to every key's manager): such a
        # call may close an expired window, it must not leave anything behind that later yields an empty result
        ts.append(Task('%s_z%d_s%d_ctl' % (kind, size, slide), 'time_window_harness',
                       {'kind': kind, 'size': size, 'slide': slide, 'max_len': 3 if tier == 'quick' else 4, 'kinds': 'IWB'},
                       bounds='%s window manager, size/gap=%d slide=%d ticks; 1 iteration x <=%d calls each Item, Watermark or '
                              'FlushBatch; clock arbitrary non-decreasing (each step 0..%d ticks, symbolic)' %
                              (kind, size, slide, 3 if tier == 'quick' else 4, 2 * size + 1), role=role, opts={'covers': []},
                       budget=300))
    for kind, size, slide in cfgs:
        ts.append(Task('%s_z%d_s%d' % (kind, size, slide), 'time_window_harness',
                       {'kind': kind, 'size': size, 'slide': slide, 'max_len': L},
                       bounds='%s window manager, size/gap=%d slide=%d ticks; 1 iteration x <=%d items; the clock '
                              'returns arbitrary non-decreasing instants (each step 0..%d ticks, symbolic)' %
                              (kind, size, slide, L, 2 * size + 1), role=role, opts={'covers': ['split']}, budget=300))
    return ts


# ------------------------------------------------------------------------------------ two-phase aggregations (C07)

class StreamStub(PyObj):
    """stands for `Stream<Op>` inside the builder functions of operator/mod.rs: records what the builder passes to
    group_by_fold / fold_assoc / map, so that the *real* init values and closures can be evaluated"""
    name = 'Stream'
    any_type = True

    def __init__(self, cap=None):
        self.cap = cap if cap is not None else {}

    def trait_call(self, ex, trait, method, args):
        if method == 'group_by_fold':
            self.cap.update(kind='keyed', init=args[2], local=args[3], glob=args[4])
            return StreamStub(self.cap)
        if method == 'fold_assoc':
            self.cap.update(kind='global', init=args[1], local=args[2], glob=args[3])
            return StreamStub(self.cap)
        if method == 'map':
            self.cap.setdefault('maps', []).append(args[1])
            return StreamStub(self.cap)
        if trait == 'Clone':
            return self
        return NotImplemented


class UserOp(PyObj):
    """associative-commutative user function on u64: wrapping add, min or max"""
    name = 'VerifUserOp'

    def __init__(self, op, by_ref):
        self.op = op
        self.by_ref = by_ref

    def apply(self, ex, a, b):
        if self.op == 'add':
            return ex.binop('Add', a, b)
        from mirsym.models import ite_int
        c = ex.binop('Lt', a, b)
        return ite_int(c, a, b) if self.op == 'min' else ite_int(c, b, a)

    def trait_call(self, ex, trait, method, args):
        if trait in ('Fn', 'FnMut', 'FnOnce'):
            x, y = args[1].fields
            if self.by_ref:                      # Fn(&mut I, I)
                x.set(self.apply(ex, x.get(), deref(y)))
                return unit()
            return self.apply(ex, deref(x), deref(y))      # Fn(I, I) -> I
        if trait == 'Clone':
            return self
        return NotImplemented


class Ident(PyObj):
    """get_value / keyer: identity on the item"""
    name = 'VerifIdent'

    def trait_call(self, ex, trait, method, args):
        if trait in ('Fn', 'FnMut', 'FnOnce'):
            return deep_copy(deref(args[1].fields[0]))
        if trait == 'Clone':
            return self
        return NotImplemented


BUILDERS = {
    # name: (arguments after self, oracle kind)
    'reduce_assoc': (lambda op: [UserOp(op, False)], 'reduce'),
    'group_by_reduce': (lambda op: [Ident(), UserOp(op, True)], 'reduce'),
    'group_by_sum': (lambda op: [Ident(), Ident()], 'sum'),
    'group_by_count': (lambda op: [Ident()], 'count'),
    'group_by_avg': (lambda op: [Ident(), Ident()], 'avg'),
    'group_by_min_element': (lambda op: [Ident(), Ident()], 'min'),
    'group_by_max_element': (lambda op: [Ident(), Ident()], 'max'),
}


PIPE_AGG = {'reduce_assoc': 0, 'group_by_reduce': 1, 'group_by_sum': 2, 'group_by_count': 3, 'group_by_avg': 4,
            'group_by_min_element': 5, 'group_by_max_element': 6}


def _native_two_phase(ex, builder, op, vals, where, nparts, arrival):
    """public-API replay (kind `pipe_agg`): the real job with the witness' values produced by the witness' replicas
    (one source replica per pre-aggregating replica), the real builder, wrapping add / min / max as user function"""
    from mirsym.executor import RustPanic
    xs = [hlib.concrete_int(ex, v) for v in vals]
    args = [nparts, PIPE_AGG[builder], {'add': 0, 'min': 1, 'max': 2}[op], len(xs)]
    for x, p in zip(xs, where):
        args += [x, p]
    delays = [0] * nparts
    for pos, part in enumerate(arrival):
        delays[part] = 200 * pos          # the partial results arrive 200 ms apart, in the witness' order
    args += delays
    runner, prof = ex.env['native']
    ex.env['native_used'] = True
    txt = runner('pipe_agg', args)[prof]
    ex.env['native_out'] = txt
    if txt == 'PANIC':
        raise Unsupported('the real job panicked (arithmetic overflow in the dev profile is outside the claim)')
    if txt.startswith(('BADARGS', 'UNKNOWN', 'NORESULT', 'TIMEOUT')):
        raise Unsupported('native driver: ' + txt)
    kind = BUILDERS[builder][1]
    o = kind if kind in ('min', 'max') else (op if kind == 'reduce' else kind)
    if o == 'add' or o == 'sum':
        want = '%d' % (sum(xs) & ((1 << 64) - 1))
    elif o == 'min':
        want = '%d' % min(xs)
    elif o == 'max':
        want = '%d' % max(xs)
    elif o == 'count':
        want = '%d' % len(xs)
    else:
        want = '%.6f' % (sum(xs) / len(xs))
    toks = [t.split(':', 1)[-1] for t in txt.split()]
    if toks != [want]:
        raise Violation('the real %s job over %s (replicas %s) yields "%s", the sequential aggregate is %s' %
                        (builder, xs, where, txt, want), hlib._wit(ex))
    return {'native': txt}


def two_phase_harness(w, builder, op, nvals, nparts):
    fn = w.impls[(None, 'Stream')][builder]
    fn = [f for f in fn if 'Stream<Op>' in f.header.split(')')[0] or len(fn) == 1][0]
    mkargs, kind = BUILDERS[builder]

    def h(ex):
        cap = {}
        ex.call_function(fn, [StreamStub(cap)] + mkargs(op))
        if 'init' not in cap:
            raise Unsupported('builder %s did not reach group_by_fold / fold_assoc' % builder)
        vals = [ex.fresh_int('u64', 'v%d' % i) for i in range(nvals)]
        for v in vals:
            ex.assume(z3.ULT(v.v, 1 << 32))      # sums of the bounded inputs do not overflow (overflow is not the subject)
        # distribute the values over the local (pre-aggregating) replicas, every way
        parts = [[] for _ in range(nparts)]
        where = []
        for v in vals:
            where.append(ex.choose(nparts, 'local replica'))
            parts[where[-1]].append(v)
        if ex.env.get('native'):
            # arrival order of the partial results at the global fold, as chosen on the witness path
            nonempty = [i for i in range(nparts) if parts[i]]
            order, arrival = list(range(len(nonempty))), []
            while order:
                arrival.append(nonempty[order.pop(ex.choose(len(order), 'arrival at the global fold') if len(order) > 1 else 0)])
            return _native_two_phase(ex, builder, op, vals, where, nparts, arrival)

        def fold(closure, init, xs):
            acc = [w.clone_value(ex, init)]
            for x in xs:
                ex.call_value(closure, [Ref(acc, 0), x])
            return acc[0]
        locals_ = [fold(cap['local'], cap['init'], p) for p in parts if p]       # an empty replica emits nothing
        order = list(range(len(locals_)))
        perm = []
        while order:
            perm.append(order.pop(ex.choose(len(order), 'arrival at the global fold') if len(order) > 1 else 0))
        two = fold(cap['glob'], cap['init'], [locals_[i] for i in perm])
        one = fold(cap['local'], cap['init'], vals)                               # shuffle-then-aggregate form
        sx = lambda: {'builder': builder, 'op': op, 'parts': [[repr(v) for v in p] for p in parts],
                      'two_phase': repr(two), 'one_phase': repr(one)}
        from mirsym.models import values_eq
        if kind == 'avg':
            # the observable result is sum / count: compare the quotients (cross-multiplied, no overflow: values < 2^32,
            # counts <= nvals), not the internal (sum, count) pairs -- a witness must show a different average
            (s2, c2), (s1, c1) = two.fields, one.fields
            z2 = lambda x: z3.ZeroExt(64, x.z())
            some2, some1 = isinstance(s2, Enum) and s2.variant == 'Some', isinstance(s1, Enum) and s1.variant == 'Some'
            if some2 != some1:
                raise Violation('pre-aggregated (two-phase) average is %s, one-phase is %s' % (s2, s1), hlib._wit(ex), sx())
            if some2:
                check(ex, z2(s2.fields[0]) * z2(c1) == z2(s1.fields[0]) * z2(c2),
                      'pre-aggregated (two-phase) result differs from the one-phase result', sx)
        else:
            check(ex, zbool(values_eq(ex, two, one)), 'pre-aggregated (two-phase) result differs from the one-phase result', sx)
        # and the one-phase result is the sequential aggregate
        zs = [v.z() for v in vals]
        if kind in ('reduce', 'sum', 'min', 'max'):
            o = kind if kind in ('min', 'max') else (op if kind == 'reduce' else 'add')
            acc = zs[0]
            for z in zs[1:]:
                acc = acc + z if o == 'add' else (z3.If(z3.ULT(z, acc), z, acc) if o == 'min' else z3.If(z3.UGT(z, acc), z, acc))
            got = one.fields[0] if isinstance(one, Enum) else one
            check(ex, got.z() == acc, 'aggregate differs from the sequential %s of the values' % o, sx)
        elif kind == 'count':
            check(ex, one.z() == nvals, 'count differs from the number of elements', sx)
        elif kind == 'avg':
            s_, c_ = one.fields
            acc = zs[0]
            for z in zs[1:]:
                acc = acc + z
            check(ex, z3.ZeroExt(64, s_.fields[0].z()) * z3.ZeroExt(64, z3.BitVecVal(nvals, 64)) ==
                  z3.ZeroExt(64, acc) * z3.ZeroExt(64, c_.z()), 'avg differs from sum / count of the values', sx)
        if len(locals_) > 1:
            hlib.cover(ex, 'several_partitions')
        return sx()
    return h


def two_phase_tasks(tier, role):
    ts = []
    nv, npart = (3, 2) if tier == 'quick' else (4, 3)
    for b in BUILDERS:
        ops = ['add', 'max'] if BUILDERS[b][1] == 'reduce' else ['add']
        for op in ops:
            ts.append(Task('two_phase_%s_%s' % (b, op), 'two_phase_harness',
                           {'builder': b, 'op': op, 'nvals': nv, 'nparts': npart},
                           bounds='Stream::%s executed from MIR against a recording stream stub; its real init value and '
                                  'local/global closures applied to %d symbolic u64 values (< 2^32) split over %d pre-aggregating '
                                  'replicas in every way, partial results reaching the global fold in every order; user '
                                  'function = wrapping %s' % (b, nv, npart, op), role=role,
                           opts={'covers': ['several_partitions'], 'panic_is_violation': False}, budget=300))
    return ts


# ------------------------------------------------------------------------------------ transaction windows (C13)

class TxLogic(PyObj):
    """user logic of a transaction window: an arbitrary TransactionOp per element"""
    name = 'VerifTxLogic'

    def __init__(self, variants):
        self.variants = variants
        self.ops = []

    def trait_call(self, ex, trait, method, args):
        if trait in ('Fn', 'FnMut', 'FnOnce'):
            k = ['Continue', 'Commit', 'CommitAfter', 'Discard'][ex.choose(4, 'transaction op')]
            f = [ex.fresh_int('i64', 'commit_after')] if k == 'CommitAfter' else []
            if f:
                ex.assume(z3.And(f[0].v >= 995, f[0].v < 1010))
            self.ops.append((k, f[0] if f else None))
            return Enum('TransactionOp', k, self.variants[k], f)
        if trait == 'Clone':
            return self
        return NotImplemented


def transaction_harness(w, max_len):
    new = w.impls[(None, 'TransactionWindow')]['new'][0]
    build = w.impls[('WindowDescription', 'TransactionWindow')]['build'][0]
    proc = w.impls[('WindowManager', 'TransactionWindowManager')]['process'][0]
    hlib.check_se_table(w)
    tv = dict(w.src.enum_variants('TransactionOp'))

    def h(ex):
        logic = TxLogic(tv)
        descr = ex.call_function(new, [logic])
        mgr = ex.call_function(build, [Ref([descr], 0), ListAcc()])
        script = hlib.gen_script(ex, 1, max_len, 'TW', payload=id_payload, ts_span=(1000, 6))
        if ex.env.get('native'):
            params = []
            for el in script:
                if el.variant == 'Timestamped':
                    code = ex.choose(4, 'transaction op')
                    t = None
                    if code == 2:
                        t = ex.fresh_int('i64', 'commit_after')
                        ex.assume(z3.And(t.v >= 995, t.v < 1010))
                    logic.ops.append((['Continue', 'Commit', 'CommitAfter', 'Discard'][code], t))
                    params += [code, hlib.concrete_int(ex, t) if t is not None else 0]
            outs = hlib.native_manager(ex, 'mgr_transaction', params, script)
        else:
            outs = drive_manager(ex, proc, [mgr], script)
        sx = lambda: {'script': [repr(e) for e in script], 'ops': [(k, repr(t)) for k, t in logic.ops],
                      'results': [[repr(r) for r in rs] for _, rs in outs]}
        cur, close, opi = [], None, 0
        for i, el in enumerate(script):
            want = None
            if el.variant == 'Timestamped':
                cur.append(el.fields[0].v)
                k, t = logic.ops[opi]
                opi += 1
                if k == 'Commit':
                    want, cur, close = cur, [], None
                elif k == 'CommitAfter':
                    close = t
                elif k == 'Discard':
                    cur, close = [], None
            elif el.variant == 'Watermark':
                if cur and close is not None and ex.branch(close.v < el.fields[0].v, 'oracle: close < watermark'):
                    want, cur, close = cur, [], None
            elif el.variant in ('FlushAndRestart', 'Terminate'):
                if cur and close is not None:
                    want, cur, close = cur, [], None
            got = outs[i][1]
            if (want is None) != (not got):
                raise Violation('transaction window %s at element %d (%s) although the user logic says otherwise' %
                                ('committed' if got else 'did not commit', i, el.variant), hlib._wit(ex), sx())
            if want is not None:
                hlib.cover(ex, 'committed')
                if [x.v for x in got[0].fields[0].items] != want:
                    raise Violation('transaction window committed %s, expected %s' %
                                    ([x.v for x in got[0].fields[0].items], want), hlib._wit(ex), sx())
        return sx()
    return h


def transaction_tasks(tier, role):
    L = 3 if tier == 'quick' else 4
    return [Task('transaction_l%d' % L, 'transaction_harness', {'max_len': L},
                 bounds='TransactionWindowManager::process over <=%d elements (Timestamped / Watermark), the user logic '
                        'answers any TransactionOp per element (CommitAfter(t) with symbolic t)' % L, role=role,
                 opts={'covers': ['committed']}, budget=300)]


# ------------------------------------------------------------------------------------ FlatMap

class Expand(PyObj):
    """user function of flat_map: item -> a Vec of 0..2 derived items (count chosen per element)"""
    name = 'VerifExpand'

    def __init__(self):
        self.log = []

    def trait_call(self, ex, trait, method, args):
        if trait in ('Fn', 'FnMut', 'FnOnce'):
            from mirsym.models_coll import VecModel
            item = deref(args[1].fields[0])
            k = ex.choose(3, 'flat_map fan-out')
            outs = [Int('u64', item.v * 10 + j) for j in range(k)]
            self.log.append((item.v, [o.v for o in outs]))
            return VecModel(outs)
        if trait == 'Clone':
            return self
        return NotImplemented


def flat_map_harness(w, iters, max_len):
    fs = w.impls[(None, 'FlatMap')]['new']
    new = [f for f in fs if 'FlatMap<' in f.header and 'Keyed' not in f.header][0] if len(fs) > 1 else fs[0]
    nxt = w.impls[('Operator', 'FlatMap')]['next'][0]
    hlib.check_se_table(w)

    def h(ex):
        script = hlib.gen_script(ex, iters, max_len, 'ITW', payload=id_payload, ts_span=(1000, 5))
        f = Expand()
        if ex.env.get('native'):
            fan = []
            for e in script:
                if e.variant in ('Item', 'Timestamped'):
                    k = ex.choose(3, 'flat_map fan-out')
                    fan.append(k)
                    f.log.append((e.fields[0].v, [e.fields[0].v * 10 + j for j in range(k)]))
            out = hlib.native_operator(ex, 'flat_map', fan, script)
        else:
            op = ex.call_function(new, [hlib.Upstream(script), f])
            out = hlib.drive(ex, nxt, [op], 3 * len(script) + 4)
        sx = lambda: {'script': [repr(e) for e in script], 'fanout': f.log, 'output': [repr(e) for e in out]}
        hlib.check_grammar(ex, out, iters, 'FlatMap output')
        hlib.check_wm_contract(ex, out, 'FlatMap output')
        want = []
        li = iter(f.log)
        for e in script:
            if e.variant in ('Item', 'Timestamped'):
                pid, kids = next(li)
                if pid != e.fields[0].v:
                    raise Violation('flat_map applied the user function out of order', hlib._wit(ex), sx())
                for kv in kids:
                    want.append((e.variant, kv, e.fields[1] if e.variant == 'Timestamped' else None))
            else:
                want.append((e.variant, None, e.fields[0] if e.variant == 'Watermark' else None))
        got = [(e.variant, e.fields[0].v if e.variant in ('Item', 'Timestamped') else None,
                hlib.ts_of(e)) for e in out]
        if [(a, b) for a, b, _ in got] != [(a, b) for a, b, _ in want]:
            raise Violation('flat_map output is not the in-order concatenation of the expansions', hlib._wit(ex), sx())
        for (_, _, tg), (_, _, tw) in zip(got, want):
            if tw is not None:
                check(ex, tg.v == tw.v, 'flat_map output does not carry the timestamp of its parent element', sx)
        if any(len(k) > 1 for _, k in f.log):
            hlib.cover(ex, 'expanded')
        return sx()
    return h


def flat_map_tasks(tier, role):
    it, ln = (2, [2, 1]) if tier == 'quick' else (2, [3, 2])
    return [Task('flat_map_i%d' % it, 'flat_map_harness', {'iters': it, 'max_len': ln},
                 bounds='FlatMap::next driven to Terminate; %d iterations x <=%s elements (Item/Timestamped/Watermark), each '
                        'element expanded to 0..2 items by the user function' % (it, ln), role=role,
                 opts={'covers': ['expanded']}, budget=300)]
