"""Harness factories for single operators driven by a symbolic upstream script.
Shared by C05 (grammar), C06 (watermark contract), C07 (aggregation value), C12.. (windows)."""
import z3
from lib.runner import Task
from mirsym.values import Int, Agg, Enum, Ref, is_sym, mk_int, unit, deep_copy
from mirsym.executor import PyObj, Unsupported
from mirsym.explore import check, Violation
from mirsym.models import zbool, some, none, deref
from mirsym import hlib


class UF(PyObj):
    """User function `Fn(&mut Acc, Item)`: acc := F(acc, item) for an uninterpreted F (so the result
    term records exactly which items were folded, in which order)."""
    name = 'VerifFoldFn'
    F = z3.Function('userF', z3.BitVecSort(64), z3.BitVecSort(64), z3.BitVecSort(64))

    def trait_call(self, ex, trait, method, args):
        if trait in ('Fn', 'FnMut', 'FnOnce'):
            acc_ref, item = args[1].fields
            acc = acc_ref.get()
            item = deref(item)
            acc_ref.set(mk_int('u64', UF.F(acc.z(), val64(item))))
            return unit()
        if trait == 'Clone':
            return self
        raise Unsupported('UF %s::%s' % (trait, method))


def val64(v):
    """payload as a 64-bit term"""
    if isinstance(v, Int):
        if v.bits == 64:
            return v.z()
        return z3.ZeroExt(64 - v.bits, v.z())
    raise Unsupported('payload %r' % (v,))


def fold_seq(items, init=0):
    acc = z3.BitVecVal(init, 64)
    for it in items:
        acc = UF.F(acc, val64(it))
    return acc


def data_items(els):
    return [e for e in els if e.variant in ('Item', 'Timestamped')]


# ------------------------------------------------------------------------------------ Fold

def build_fold(ex, w, up):
    new = w.impls[(None, 'Fold')]['new'][0]
    return ex.call_function(new, [up, Int('u64', 0), UF()])


def fold_harness(w, iters, max_len, kinds='ITW'):
    nxt = w.impls[('Operator', 'Fold')]['next'][0]
    hlib.check_se_table(w)

    def h(ex):
        script = hlib.gen_script(ex, iters, max_len, kinds)
        op = build_fold(ex, w, hlib.Upstream(script))
        holder = [op]
        out = hlib.drive(ex, nxt, holder, len(script) + 4)
        hlib.check_grammar(ex, out, iters, 'Fold output')          # C05
        hlib.check_wm_contract(ex, out, 'Fold output')             # C06
        ins, outs = hlib.split_iterations(script), hlib.split_iterations(out)
        for k, (i_it, o_it) in enumerate(zip(ins, outs)):          # C07 + C05 (nothing carried over)
            d = data_items(i_it)
            od = data_items(o_it)
            if not d:
                if od:
                    raise Violation('fold emitted a result for an empty iteration', hlib._wit(ex))
                continue
            hlib.cover(ex, 'nonempty_iteration')
            if len(od) != 1:
                raise Violation('fold emitted %d results for one iteration' % len(od), hlib._wit(ex),
                                {'output': [repr(x) for x in out]})
            res = od[0]
            check(ex, res.fields[0].z() == fold_seq([e.fields[0] for e in d]),
                  'fold result differs from the sequential fold of the iteration', {'iteration': k})
            tss = [e.fields[1].v for e in d if e.variant == 'Timestamped']
            if tss:
                if res.variant != 'Timestamped':
                    raise Violation('fold result lost its timestamp', hlib._wit(ex))
                check(ex, res.fields[1].v == hlib.bv_max(tss), 'fold result timestamp is not the max input timestamp')
            elif res.variant != 'Item':
                raise Violation('fold result has a timestamp although no input had one', hlib._wit(ex))
            # results precede watermarks of the iteration? (only order: data, then watermark, then F&R)
        return {'script': [repr(e) for e in script], 'output': [repr(e) for e in out]}
    return h


def fold_tasks(tier, role):
    it, ln = (2, 3) if tier == 'quick' else (3, 4)
    return [Task('fold_i%d_l%d' % (it, ln), 'fold_harness', {'iters': it, 'max_len': ln},
                 bounds='Fold::next driven to Terminate; upstream: %d iterations x <=%d elements, each '
                        'Item/Timestamped/Watermark in any order, payloads u8 and timestamps i64 symbolic '
                        '(watermark contract assumed on the input); user fold = uninterpreted function' % (it, ln),
                 role=role, opts={'covers': ['nonempty_iteration']}, budget=300)]


# ------------------------------------------------------------------------------------ KeyedFold

def kv_payload(key_ty='u8', val_ty='u8'):
    def f(ex, k):
        return Agg('tuple', None, [ex.fresh_int(key_ty, 'k%d' % k), ex.fresh_int(val_ty, 'v%d' % k)])
    return f


def classes(ex, keyed):
    """group [(key Int, x)] by key equality, which is decided on this path; keeps arrival order"""
    groups = []
    for k, x in keyed:
        for g in groups:
            e = ex.binop('Eq', g[0], k)
            if e is True or (e is not False and ex.valid(e)):
                g[1].append(x)
                break
            if e is not False and ex.feasible(e):
                raise Unsupported('key equality not decided on this path')
        else:
            groups.append((k, [x]))
    return groups


def keyed_fold_harness(w, iters, max_len, kinds='ITW', hash_order='any'):
    new = w.impls[(None, 'KeyedFold')]['new'][0]
    nxt = w.impls[('Operator', 'KeyedFold')]['next'][0]
    hlib.check_se_table(w)

    def h(ex):
        ex.env['hash_order'] = hash_order
        script = hlib.gen_script(ex, iters, max_len, kinds, payload=kv_payload())
        op = ex.call_function(new, [hlib.Upstream(script), Int('u64', 0), UF()])
        holder = [op]
        out = hlib.drive(ex, nxt, holder, len(script) + 4)
        hlib.check_grammar(ex, out, iters, 'KeyedFold output')
        hlib.check_wm_contract(ex, out, 'KeyedFold output')
        ins, outs = hlib.split_iterations(script), hlib.split_iterations(out)
        for k, (i_it, o_it) in enumerate(zip(ins, outs)):
            d = data_items(i_it)
            od = data_items(o_it)
            groups = classes(ex, [(e.fields[0].fields[0], e) for e in d])
            if len(od) != len(groups):
                raise Violation('keyed fold emitted %d results for %d distinct keys' % (len(od), len(groups)),
                                hlib._wit(ex), {'output': [repr(x) for x in out]})
            if len(groups) > 1:
                hlib.cover(ex, 'two_keys')
            for key, els in groups:
                match = [r for r in od if ex.valid(zbool(ex.binop('Eq', r.fields[0].fields[0], key)))]
                if len(match) != 1:
                    raise Violation('key has %d results in one iteration' % len(match), hlib._wit(ex),
                                    {'output': [repr(x) for x in out]})
                res = match[0]
                check(ex, res.fields[0].fields[1].z() == fold_seq([e.fields[0].fields[1] for e in els]),
                      'keyed fold result differs from the sequential fold of that key', {'iteration': k})
                tss = [e.fields[1].v for e in els if e.variant == 'Timestamped']
                if tss:
                    if res.variant != 'Timestamped':
                        raise Violation('keyed fold result lost its timestamp', hlib._wit(ex))
                    check(ex, res.fields[1].v == hlib.bv_max(tss),
                          'keyed fold result timestamp is not the max input timestamp of the key')
                elif res.variant != 'Item':
                    raise Violation('keyed fold result has a timestamp although no input of the key had one',
                                    hlib._wit(ex))
        return {'script': [repr(e) for e in script], 'output': [repr(e) for e in out]}
    return h


def keyed_fold_tasks(tier, role):
    it, ln = (2, 3) if tier == 'quick' else (2, 4)
    return [Task('keyed_fold_i%d_l%d' % (it, ln), 'keyed_fold_harness', {'iters': it, 'max_len': ln},
                 bounds='KeyedFold::next driven to Terminate; upstream: %d iterations x <=%d elements '
                        '(Item/Timestamped/Watermark), keys and values u8 symbolic (every equality pattern), '
                        'HashMap drain in every order; user fold uninterpreted' % (it, ln),
                 role=role, opts={'covers': ['two_keys']}, budget=300)]


# ------------------------------------------------------------------------------------ windows

class ListAcc(PyObj):
    """WindowAccumulator that records exactly which elements it was given, in order."""
    name = 'VerifListAcc'

    def __init__(self, items=None):
        self.items = list(items or [])

    def trait_call(self, ex, trait, method, args):
        if trait == 'WindowAccumulator' and method == 'process':
            self.items.append(args[1])
            return unit()
        if trait == 'WindowAccumulator' and method == 'output':
            from mirsym.models_coll import VecModel
            return VecModel(self.items)
        if trait == 'Clone':
            return ListAcc(self.items)
        raise Unsupported('ListAcc %s::%s' % (trait, method))

    def __repr__(self):
        return 'ListAcc%r' % (self.items,)


def results_of(ret):
    """normalise a WindowManager::Output (Option<WindowResult> | Vec<WindowResult>) to a list"""
    if isinstance(ret, Enum) and ret.base == 'Option':
        return [ret.fields[0]] if ret.variant == 'Some' else []
    if hasattr(ret, 'items'):
        return list(ret.items)
    raise Unsupported('manager output %r' % (ret,))


def drive_manager(ex, proc, holder, script):
    """feed every element of the script to WindowManager::process; -> [(element index, [results])]"""
    out = []
    for i, el in enumerate(script):
        ret = ex.call_function(proc, [Ref(holder, 0), deep_copy(el)])
        out.append((i, results_of(ret)))
    return out


def same_items(ex, got, want, msg, extra=None):
    """got / want: lists of payload Ints; must be equal element-wise"""
    if len(got) != len(want):
        raise Violation(msg + ' (%d elements instead of %d)' % (len(got), len(want)), hlib._wit(ex), extra)
    for g, x in zip(got, want):
        check(ex, zbool(ex.binop('Eq', g, x)), msg, extra)


def count_window_harness(w, size, slide, iters, max_len):
    cw_new = w.impls[(None, 'CountWindow')]['new'][0]
    build = w.impls[('WindowDescription', 'CountWindow')]['build'][0]
    proc = w.impls[('WindowManager', 'CountWindowManager')]['process'][0]
    hlib.check_se_table(w)

    def h(ex):
        exact = ex.choose(2, 'exact') == 1
        descr = ex.call_function(cw_new, [Int('usize', size), Int('usize', slide), exact])
        mgr = ex.call_function(build, [Ref([descr], 0), ListAcc()])
        script = hlib.gen_script(ex, iters, max_len, 'IT/iter', wm_contract=False)
        holder = [mgr]
        outs = drive_manager(ex, proc, holder, script)
        # oracle: per iteration, groups [jS, jS+N) emitted at their N-th element
        pos = 0
        it_elems = []
        nxt_window = 0
        for i, el in enumerate(script):
            res = outs[i][1]
            if el.variant in ('Item', 'Timestamped'):
                it_elems.append(el)
                m = len(it_elems)
                want = []
                if m >= size and (m - size) % slide == 0:
                    j = (m - size) // slide
                    want = [it_elems[j * slide: j * slide + size]]
                    nxt_window = j + 1
                    hlib.cover(ex, 'full_window')
            else:
                want = []
                if el.variant in ('FlushAndRestart', 'Terminate'):
                    if not exact and nxt_window * slide < len(it_elems):
                        want = [it_elems[nxt_window * slide:]]
                        hlib.cover(ex, 'partial_window')
                    it_elems = []
                    nxt_window = 0
            extra = {'size': size, 'slide': slide, 'exact': exact, 'at_element': i,
                     'script': [repr(e) for e in script]}
            if len(res) != len(want):
                raise Violation('count window: %d results at element %d (%s), expected %d' %
                                (len(res), i, el.variant, len(want)), hlib._wit(ex), extra)
            for r, grp in zip(res, want):
                same_items(ex, r.fields[0].items, [g.fields[0] for g in grp],
                           'count window result is not the expected group', extra)
                tss = [g.fields[1].v for g in grp if g.variant == 'Timestamped']
                if tss:
                    if r.variant != 'Timestamped':
                        raise Violation('count window result lost its timestamp', hlib._wit(ex), extra)
                    check(ex, r.fields[1].v == hlib.bv_max(tss), 'count window timestamp is not the group max',
                          extra)
                elif r.variant != 'Item':
                    raise Violation('count window result has a spurious timestamp', hlib._wit(ex), extra)
        return {'size': size, 'slide': slide, 'exact': exact, 'script': [repr(e) for e in script],
                'results': [[repr(r) for r in rs] for _, rs in outs]}
    return h


def count_window_tasks(tier, role):
    ts = []
    grid = [(1, 1), (2, 1), (2, 2), (3, 1), (3, 2), (3, 3), (4, 3)] if tier == 'quick' else \
        [(n, s) for n in (1, 2, 3, 4, 5, 6) for s in range(1, n + 1)]
    for n, s in grid:
        ln = [min(2 * n + 1, 6), 3] if tier == 'quick' else [min(2 * n + 2, 9), 4]
        ts.append(Task('count_n%d_s%d' % (n, s), 'count_window_harness',
                       {'size': n, 'slide': s, 'iters': 2, 'max_len': ln},
                       bounds='CountWindowManager size=%d slide=%d, exact symbolic, 2 iterations x <=%s elements '
                              '(all-Item / all-Timestamped / alternating, payload u8 + timestamps i64 symbolic), '
                              'accumulator records its elements' % (n, s, ln), role=role,
                       opts={'covers': ['full_window']}, budget=150))
    return ts
