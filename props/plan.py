"""Symbolic evaluation of the stream *builders* (operator/mod.rs, join/*.rs): the builder function is executed from MIR
against a stream value that records the logical plan it assembles (operators added, connections opened with which
NextStrategy, replication changes); the plan is then evaluated block by block over symbolic inputs spread over the
replicas: every operator is the real one (built by the real closure the builder passed to add_operator and driven from
MIR), the connections are evaluated by their meaning (OnlyOne / Random / GroupBy(real index function) / All), elements
of different senders interleave arbitrarily.  One iteration, untimestamped items."""
import z3
from lib.runner import Task
from mirsym.values import Int, Agg, Enum, Ref, Opaque, deep_copy, unit
from mirsym.executor import PyObj, Unsupported
from mirsym.explore import check, Violation
from mirsym.models import zbool, some, none, deref
from mirsym import hlib


class SymStream(PyObj):
    """`Stream<Op>` as a logical plan: a list of stages ('op', get_operator closure) | ('connect', strategy) |
    ('repl', Replication value)"""
    name = 'Stream'
    any_type = True

    def __init__(self, plan=None, src=None):
        self.plan = list(plan or [])
        self.src = src

    def ext(self, stage):
        return SymStream(self.plan + [stage], self.src)

    def trait_call(self, ex, trait, method, args):
        if method == 'add_operator':
            return self.ext(('op', args[1]))
        if method == 'split_block':
            return self.ext(('connect', args[2]))
        if method == 'replication':
            w = ex.w
            only = Enum('NextStrategy', 'OnlyOne', dict(w.src.enum_variants('NextStrategy'))['OnlyOne'], [])
            return SymStream(self.plan + [('connect', only), ('repl', args[1])], self.src)
        if method == 'binary_connection':
            other = args[1]
            if not isinstance(other, SymStream):
                raise Unsupported('binary_connection with %r' % (other,))
            return SymStream([('binary', self, other, args[2], args[3], args[4])], None)
        if trait == 'Clone':
            return self
        return NotImplemented


def unwrap_stream(v):
    """Stream | KeyedStream(Stream) -> SymStream"""
    while isinstance(v, Agg) and v.fields and not isinstance(v, SymStream):
        v = v.fields[0]
    if not isinstance(v, SymStream):
        raise Unsupported('builder did not return a stream: %r' % (v,))
    return v


def _interleave(ex, seqs, tag):
    """arbitrary interleaving of the sequences that keeps each one's order"""
    seqs = [list(s) for s in seqs if s]
    out = []
    while seqs:
        i = ex.choose(len(seqs), tag) if len(seqs) > 1 else 0
        out.append(seqs[i].pop(0))
        if not seqs[i]:
            seqs.pop(i)
    return out


def _run_block(ex, closures, script):
    op = hlib.Upstream(script)
    for c in closures:
        op = ex.call_value(c, [op])
    if isinstance(op, hlib.Upstream):
        return list(script)
    holder = [op]
    out = []
    for _ in range(4 * len(script) + 16):
        el = ex.call_path('<Op as Operator>::next', [Ref(holder, 0)], None)
        out.append(el)
        if el.variant == 'Terminate':
            return out
    raise Violation('operator chain does not terminate', hlib._wit(ex))


def _data(seq):
    return [e for e in seq if e.variant in ('Item', 'Timestamped')]


def _route(ex, w, strategy, outs, n_next):
    """outs: per sender replica the output sequence; -> per receiver replica its input script"""
    index = w.impls[(None, 'NextStrategy')]['index'][0]
    per = [[[] for _ in outs] for _ in range(n_next)]        # per[receiver][sender] = elements
    for s, seq in enumerate(outs):
        for e in _data(seq):
            k = strategy.variant
            if k == 'All':
                tg = list(range(n_next))
            elif k == 'OnlyOne':
                tg = [s % n_next]
            elif k == 'Random':
                tg = [ex.choose(n_next, 'shuffle target') if n_next > 1 else 0]
            elif k == 'GroupBy':
                if n_next == 1:
                    tg = [0]
                else:
                    i = ex.call_function(index, [Ref([strategy], 0), Ref([deep_copy(e.fields[0])], 0)])
                    r = ex.binop('Rem', i, Int('usize', n_next))
                    tg = [ex.concretize(r, 0, n_next, 'group-by target replica')]
            else:
                raise Unsupported('strategy ' + k)
            for t in tg:
                per[t][s].append(deep_copy(e))
    scripts = []
    for r in range(n_next):
        scripts.append(_interleave(ex, per[r], 'arrival order at the next block') +
                       [hlib.se('FlushAndRestart'), hlib.se('Terminate')])
    return scripts


def _scripts(inputs):
    return [[hlib.se('Item', deep_copy(v)) for v in vs] + [hlib.se('FlushAndRestart'), hlib.se('Terminate')] for vs in inputs]


def _next_replicas(plan, i, R):
    """replication of the block opened by the connection before position i; -> (replicas, new position)"""
    n_next = R
    if i < len(plan) and plan[i][0] == 'repl':
        rv = plan[i][1]
        i += 1
        if rv.variant in ('One', 'Host'):
            n_next = 1
        elif rv.variant == 'Limited':
            n_next = min(R, rv.fields[0].v)
    return n_next, i


def run_stages(ex, w, plan, i, scripts, R):
    """evaluate plan[i:] starting from the given per-replica input scripts of the current block"""
    while True:
        closures = []
        while i < len(plan) and plan[i][0] == 'op':
            closures.append(plan[i][1])
            i += 1
        outs = [_run_block(ex, closures, s) for s in scripts]
        for o in outs:
            hlib.check_grammar(ex, o, 1, 'block output')
        if i >= len(plan):
            return outs
        if plan[i][0] != 'connect':
            raise Unsupported('plan stage %s' % plan[i][0])
        strategy = plan[i][1]
        n_next, i = _next_replicas(plan, i + 1, R)
        scripts = _route(ex, w, strategy, outs, n_next)


def evaluate(ex, w, stream, inputs, R, inputs_right=None):
    """inputs: per source replica a list of payload values; R: replicas of an unconstrained block.
    -> per replica of the last block its output sequence"""
    plan = stream.plan
    if plan and plan[0][0] == 'binary':
        _, L, Rt, _ctor, s1, s2 = plan[0]
        outs_l = evaluate(ex, w, L, inputs, R)
        outs_r = evaluate(ex, w, Rt, inputs_right, R)
        n_next, i = _next_replicas(plan, 1, R)
        if s1.variant == 'OnlyOne' and s2.variant == 'OnlyOne':
            if len(outs_l) != len(outs_r):
                raise Violation('forward binary connection between blocks of different replication', hlib._wit(ex))
            n_next = len(outs_l)
        be = dict(w.src.enum_variants('BinaryElement'))
        wrap = lambda side, seq: [hlib.se('Item', Enum('BinaryElement', side, be[side], [deep_copy(e.fields[0])])) for e in seq]
        end = lambda side: hlib.se('Item', Enum('BinaryElement', side, be[side], []))
        sl = _route(ex, w, s1, outs_l, n_next)
        sr = _route(ex, w, s2, outs_r, n_next)
        scripts = []
        for r in range(n_next):
            a = wrap('Left', _data(sl[r])) + [end('LeftEnd')]
            b = wrap('Right', _data(sr[r])) + [end('RightEnd')]
            scripts.append(_interleave(ex, [a, b], 'left/right arrival at the binary start') +
                           [hlib.se('FlushAndRestart'), hlib.se('Terminate')])
        return run_stages(ex, w, plan, i, scripts, R)
    return run_stages(ex, w, plan, 0, _scripts(inputs), R)


# ------------------------------------------------------------------------------------ aggregations (C07)

from props.ops import UserOp, Ident     # noqa: E402


class KeyMod(PyObj):
    """keyer: the item itself is (key, value): |x| x.0"""
    name = 'VerifKeyOfPair'

    def trait_call(self, ex, trait, method, args):
        if trait in ('Fn', 'FnMut', 'FnOnce'):
            return deep_copy(deref(args[1].fields[0]).fields[0])
        if trait == 'Clone':
            return self
        return NotImplemented


class ValOf(PyObj):
    name = 'VerifValOfPair'

    def trait_call(self, ex, trait, method, args):
        if trait in ('Fn', 'FnMut', 'FnOnce'):
            return deep_copy(deref(args[1].fields[0]).fields[1])
        if trait == 'Clone':
            return self
        return NotImplemented


AGG = {
    # builder: (receiver type, keyed?, args(op), oracle)
    'fold': ('Stream', False, lambda op: [Int('u64', 0), UserOp(op, True)], 'fold0'),
    'fold_assoc': ('Stream', False, lambda op: [Int('u64', 0), UserOp(op, True), UserOp(op, True)], 'fold0'),
    'reduce': ('Stream', False, lambda op: [UserOp(op, False)], 'reduce'),
    'reduce_assoc': ('Stream', False, lambda op: [UserOp(op, False)], 'reduce'),
    'group_by_fold': ('Stream', True, lambda op: [KeyMod(), Int('u64', 0), FoldVal(op), UserOp(op, True)], 'kfold0'),
    'group_by_reduce': ('Stream', True, lambda op: [KeyMod(), PairOp(op)], 'kreduce_pair'),
    'group_by_sum': ('Stream', True, lambda op: [KeyMod(), ValOf()], 'ksum'),
    'group_by_count': ('Stream', True, lambda op: [KeyMod()], 'kcount'),
    'group_by_min_element': ('Stream', True, lambda op: [KeyMod(), ValOf()], 'kmin'),
    'group_by_max_element': ('Stream', True, lambda op: [KeyMod(), ValOf()], 'kmax'),
    # shuffle-then-aggregate forms: Stream::group_by followed by KeyedStream::fold / reduce
    'group_by+fold': ('Stream', True, lambda op: [KeyMod()], 'kfold0'),
    'group_by+reduce': ('Stream', True, lambda op: [KeyMod()], 'kreduce_pair'),
}
PIPE_AGG2 = ['fold', 'fold_assoc', 'reduce', 'reduce_assoc', 'group_by_fold', 'group_by_reduce', 'group_by_sum',
             'group_by_count', 'group_by_min_element', 'group_by_max_element', 'group_by+fold', 'group_by+reduce']


def _native_agg_plan(ex, builder, op, keys, vals, where, R):
    """public-API replay (kind `pipe_agg2`): the real builder in a real job, the witness' values / keys produced by the
    witness' source replicas; partial results of replica i start 150*i ms apart"""
    xs = [hlib.concrete_int(ex, v) for v in vals]
    ks = [k.v if k is not None else 0 for k in keys]
    args = [R, PIPE_AGG2.index(builder), {'add': 0, 'min': 1, 'max': 2}[op], len(xs)]
    for k, x, p in zip(ks, xs, where):
        args += [k, x, p]
    args += [150 * i for i in range(R)]
    runner, prof = ex.env['native']
    ex.env['native_used'] = True
    txt = runner('pipe_agg2', args)[prof]
    ex.env['native_out'] = txt
    if txt == 'PANIC':
        raise Unsupported('the real job panicked (arithmetic overflow in the dev profile is outside the claim)')
    if txt.startswith(('BADARGS', 'UNKNOWN', 'NORESULT', 'NOOUTPUT')):
        raise Unsupported('native driver: ' + txt)
    if txt.startswith('TIMEOUT'):
        raise Violation('the real %s job does not terminate' % builder, hlib._wit(ex))
    M = (1 << 64) - 1
    f = {'add': lambda a, b: (a + b) & M, 'min': min, 'max': max}
    oracle = AGG[builder][3]

    def agg(o, zs, init=None):
        acc = init
        for z in zs:
            acc = z if acc is None else f[o](acc, z)
        return acc
    if not AGG[builder][1]:
        want = [] if not xs else [str(agg(op, xs, 0 if oracle == 'fold0' else None))]
    else:
        want = []
        for k in sorted(set(ks)):
            zs = [x for kk, x in zip(ks, xs) if kk == k]
            v = {'kfold0': lambda: agg(op, zs, 0), 'kreduce_pair': lambda: agg(op, zs), 'ksum': lambda: agg('add', zs),
                 'kcount': lambda: len(zs), 'kmin': lambda: min(zs), 'kmax': lambda: max(zs)}[oracle]()
            want.append('%d:%d' % (k, v))
    got = [t for t in txt.split() if t != '-']
    if sorted(got) != sorted(want):
        raise Violation('the real %s job over keys %s values %s (source replicas %s) yields "%s", the sequential aggregate is '
                        '"%s"' % (builder, ks, xs, where, txt, ' '.join(want)), hlib._wit(ex))
    return {'native': txt}



class FoldVal(PyObj):
    """local fold of group_by_fold over (key, value) items: acc = op(acc, item.1)"""
    name = 'VerifFoldVal'

    def __init__(self, op):
        self.u = UserOp(op, True)

    def trait_call(self, ex, trait, method, args):
        if trait in ('Fn', 'FnMut', 'FnOnce'):
            acc, item = args[1].fields
            acc.set(self.u.apply(ex, acc.get(), deref(item).fields[1]))
            return unit()
        if trait == 'Clone':
            return self
        return NotImplemented


class PairOp(PyObj):
    """reduce over (key, value) items (group_by_reduce keeps whole items): keeps the key, combines the values"""
    name = 'VerifPairOp'

    def __init__(self, op):
        self.u = UserOp(op, True)

    def trait_call(self, ex, trait, method, args):
        if trait in ('Fn', 'FnMut', 'FnOnce'):
            acc, item = args[1].fields
            a = acc.get()
            acc.set(Agg('tuple', None, [a.fields[0], self.u.apply(ex, a.fields[1], deref(item).fields[1])]))
            return unit()
        if trait == 'Clone':
            return self
        return NotImplemented


def _agg(op, zs):
    acc = zs[0]
    for z in zs[1:]:
        acc = acc + z if op == 'add' else (z3.If(z3.ULT(z, acc), z, acc) if op == 'min' else z3.If(z3.UGT(z, acc), z, acc))
    return acc


def agg_plan_harness(w, builder, op, nvals, R):
    ty, keyed, mkargs, oracle = AGG[builder]
    fns = w.impls[(None, 'Stream')][builder.split('+')[0]]
    fn = [f for f in fns if 'Keyed' not in f.header.split('(')[0]][0] if len(fns) > 1 else fns[0]

    def h(ex):
        ex.env['generics'] = {'K': 'u64', 'Key': 'u64'}
        nk = 2
        vals, keys = [], []
        for i in range(nvals):
            v = ex.fresh_int('u64', 'v%d' % i)
            ex.assume(z3.ULT(v.v, 1 << 32))
            vals.append(v)
            keys.append(Int('u64', ex.choose(nk, 'key')) if keyed else None)
        items = [Agg('tuple', None, [k, v]) if keyed else v for k, v in zip(keys, vals)]
        inputs = [[] for _ in range(R)]
        where = []
        for it in items:
            where.append(ex.choose(R, 'source replica'))
            inputs[where[-1]].append(it)
        if ex.env.get('native'):
            return _native_agg_plan(ex, builder, op, keys, vals, where, R)
        res = ex.call_function(fn, [SymStream()] + mkargs(op))
        if '+' in builder:
            kfns = w.impls[(None, 'KeyedStream')][builder.split('+')[1]]
            kfn = kfns[0]
            extra = [Int('u64', 0), FoldVal(op)] if builder.endswith('fold') else [PairOp(op)]
            res = ex.call_function(kfn, [res] + extra)
        plan = unwrap_stream(res)
        outs = evaluate(ex, w, plan, inputs, R)
        data = [e for o in outs for e in _data(o)]
        sx = lambda: {'builder': builder, 'inputs': [[repr(x) for x in p] for p in inputs],
                      'plan': [s[0] + (':' + s[1].variant if s[0] != 'op' else '') for s in plan.plan],
                      'output': [[repr(e) for e in o] for o in outs]}
        if not keyed:
            want_n = 1 if (vals or oracle == 'fold0') and vals else 0
            if len(data) != want_n:
                raise Violation('%s emitted %d results for %d input elements' % (builder, len(data), len(vals)), hlib._wit(ex), sx())
            if vals:
                zs = [v.z() for v in vals]
                want = _agg(op, ([z3.BitVecVal(0, 64)] if oracle == 'fold0' else []) + zs)
                got = data[0].fields[0]
                check(ex, got.z() == want, '%s result differs from the sequential %s of all elements' % (builder, op), sx)
                hlib.cover(ex, 'aggregated')
        else:
            classes = {}
            for k, v in zip(keys, vals):
                classes.setdefault(k.v, []).append(v.z())
            seen = {}
            for e in data:
                k, r = e.fields[0].fields
                if k.v in seen:
                    raise Violation('%s emitted two results for key %d (equal keys did not meet on one replica)' % (builder, k.v),
                                    hlib._wit(ex), sx())
                seen[k.v] = r
            if set(seen) != set(classes):
                raise Violation('%s: results for keys %s, inputs have keys %s' % (builder, sorted(seen), sorted(classes)),
                                hlib._wit(ex), sx())
            for k, zs in classes.items():
                r = seen[k]
                if oracle == 'kfold0':
                    want = _agg(op, [z3.BitVecVal(0, 64)] + zs)
                elif oracle == 'kreduce_pair':
                    r = r.fields[1]
                    want = _agg(op, zs)
                elif oracle == 'ksum':
                    want = _agg('add', zs)
                elif oracle == 'kcount':
                    want = z3.BitVecVal(len(zs), 64)
                else:
                    r = r.fields[1] if isinstance(r, Agg) else r
                    want = _agg('min' if oracle == 'kmin' else 'max', zs)
                check(ex, r.z() == want, '%s result for key %d differs from the sequential aggregate' % (builder, k), sx)
                hlib.cover(ex, 'aggregated')
        return sx()
    return h


def agg_plan_tasks(tier, role):
    nv, R = (3, 2) if tier == 'quick' else (4, 2)
    ts = []
    for b in AGG:
        for op in (['add', 'max'] if b in ('fold_assoc', 'reduce_assoc') else ['add']):
            ts.append(Task('plan_%s_%s' % (b, op), 'agg_plan_harness', {'builder': b, 'op': op, 'nvals': nv, 'R': R},
                           bounds='Stream::%s executed from MIR into a logical plan, the plan evaluated over %d symbolic u64 '
                                  'values (< 2^32%s) spread over %d source replicas in every way; real operators (built by the '
                                  'closures the builder passes to add_operator) driven from MIR, connections by meaning, every '
                                  'arrival interleaving; one iteration, user function = wrapping %s' %
                                  (b, nv, ', keys 0/1' if AGG[b][1] else '', R, op),
                           role=role, opts={'covers': ['aggregated'], 'panic_is_violation': False}, budget=300))
    return ts


# ------------------------------------------------------------------------------------ joins (C08)

JOIN_APIS = {
    # name: ([(type, method)...] applied after join_with, variant, keyed result?)
    'join': ([('Stream', 'join')], 'inner'),
    'left_join': ([('Stream', 'left_join')], 'left'),
    'outer_join': ([('Stream', 'outer_join')], 'outer'),
    'hash_hash_outer': ([('Stream', 'join_with'), ('JoinStream', 'ship_hash'), ('JoinStreamShipHash', 'local_hash'),
                         ('JoinStreamLocalHash', 'outer')], 'outer'),
    'hash_sort_merge_left': ([('Stream', 'join_with'), ('JoinStream', 'ship_hash'), ('JoinStreamShipHash', 'local_sort_merge'),
                              ('JoinStreamLocalSortMerge', 'left')], 'left'),
    'broadcast_hash_left': ([('Stream', 'join_with'), ('JoinStream', 'ship_broadcast_right'),
                             ('JoinStreamShipBroadcastRight', 'local_hash'), ('JoinStreamLocalHash', 'left')], 'left'),
    'broadcast_sort_merge_inner': ([('Stream', 'join_with'), ('JoinStream', 'ship_broadcast_right'),
                                    ('JoinStreamShipBroadcastRight', 'local_sort_merge'),
                                    ('JoinStreamLocalSortMerge', 'inner')], 'inner'),
}


def _pick(w, ty, meth, want_stream_result=None):
    fns = w.impls[(None, ty)][meth]
    return fns


def join_plan_harness(w, api, nl, nr, R):
    steps, variant = JOIN_APIS[api]

    def h(ex):
        ex.env['generics'] = {'K': 'u64', 'Key': 'u64'}
        ex.env['hash_order'] = 'any'
        mk = lambda n, base, tag: [Agg('tuple', None, [Int('u64', ex.choose(2, 'key')), Int('u64', base + j)]) for j in range(n)]
        lefts, rights = mk(nl, 10, 'l'), mk(nr, 20, 'r')
        il, ir = [[] for _ in range(R)], [[] for _ in range(R)]
        wl, wr = [], []
        for it in lefts:
            wl.append(ex.choose(R, 'source replica'))
            il[wl[-1]].append(it)
        for it in rights:
            wr.append(ex.choose(R, 'source replica'))
            ir[wr[-1]].append(it)
        if ex.env.get('native'):
            return _native_join_plan(ex, api, variant, lefts, rights, wl, wr, R)
        cur = SymStream()
        first = True
        for ty, meth in steps:
            fns = w.impls[(None, ty)][meth]
            broadcast = any(t == 'JoinStreamShipBroadcastRight' for t, _ in steps)
            if len(fns) > 1:
                # several impl blocks define the method (ship strategy marker types): pick by the self type
                mark = 'ShipBroadcastRight' if broadcast else 'ShipHash'
                cand = [f for f in fns if mark in f.header.split(')')[0]] or fns
                fn = cand[0]
            else:
                fn = fns[0]
            args = [cur] + ([SymStream(), KeyMod(), KeyMod()] if first else [])
            cur = ex.call_function(fn, args)
            first = False
        plan = unwrap_stream(cur)
        outs = evaluate(ex, w, plan, il, R, inputs_right=ir)
        data = [e for o in outs for e in _data(o)]
        sx = lambda: {'api': api, 'left': [[repr(x) for x in p] for p in il], 'right': [[repr(x) for x in p] for p in ir],
                      'output': [[repr(e) for e in o] for o in outs]}
        opt = lambda v: None if (isinstance(v, Enum) and v.variant == 'None') else \
            (v.fields[0].fields[1].v if isinstance(v, Enum) else v.fields[1].v)
        got = []
        for e in data:
            key, pair = e.fields[0].fields
            l, r = pair.fields
            got.append((key.v, opt(l), opt(r)))
        want = _join_oracle(variant, [(x.fields[0].v, x.fields[1].v) for x in lefts],
                            [(x.fields[0].v, x.fields[1].v) for x in rights])
        if sorted(got, key=repr) != sorted(want, key=repr):
            raise Violation('%s output %s, the relational %s join is %s' % (api, sorted(got, key=repr), variant,
                                                                           sorted(want, key=repr)), hlib._wit(ex), sx())
        if any(l is not None and r is not None for _, l, r in want):
            hlib.cover(ex, 'matched_pair')
        return sx()
    return h


def _join_oracle(variant, lefts, rights):
    want = []
    for lk, lv in lefts:
        ms = [rv for rk, rv in rights if rk == lk]
        want += [(lk, lv, rv) for rv in ms]
        if not ms and variant in ('left', 'outer'):
            want.append((lk, lv, None))
    if variant == 'outer':
        for rk, rv in rights:
            if not any(lk == rk for lk, _ in lefts):
                want.append((rk, None, rv))
    return want


def _native_join_plan(ex, api, variant, lefts, rights, wl, wr, R):
    """public-API replay (kind `pipe_join`): the real builder chain in a real job, the witness' items produced by the
    witness' source replicas"""
    from mirsym.executor import RustPanic
    L = [(x.fields[0].v, x.fields[1].v) for x in lefts]
    Rr = [(x.fields[0].v, x.fields[1].v) for x in rights]
    args = [R, list(JOIN_APIS).index(api), len(L)]
    for (k, v), p in zip(L, wl):
        args += [k, v, p]
    args.append(len(Rr))
    for (k, v), p in zip(Rr, wr):
        args += [k, v, p]
    runner, prof = ex.env['native']
    ex.env['native_used'] = True
    txt = runner('pipe_join', args)[prof]
    ex.env['native_out'] = txt
    if txt == 'PANIC':
        raise RustPanic('the real %s job panicked' % api)
    if txt.startswith(('BADARGS', 'UNKNOWN', 'NORESULT', 'NOOUTPUT')):
        raise Unsupported('native driver: ' + txt)
    if txt.startswith('TIMEOUT'):
        raise Violation('the real %s job does not terminate' % api, hlib._wit(ex))
    sh = lambda x: '_' if x is None else str(x)
    want = sorted('%d:%s-%s' % (k, sh(l), sh(r)) for k, l, r in _join_oracle(variant, L, Rr))
    got = sorted(t for t in txt.split() if t != '-')
    if got != want:
        raise Violation('the real %s job (left %s on replicas %s, right %s on replicas %s) yields %s, the relational %s join is %s'
                        % (api, L, wl, Rr, wr, got, variant, want), hlib._wit(ex))
    return {'native': txt}


def join_plan_tasks(tier, role):
    R = 2
    ts = []
    for a in JOIN_APIS:
        nl, nr = (2, 1) if JOIN_APIS[a][1] != 'outer' else (1, 2)
        if tier != 'quick' and a in ('join', 'hash_hash_outer', 'broadcast_hash_left'):
            nl, nr = 2, 2
        ts.append(_join_task(a, nl, nr, R, role))
    return ts


def _join_task(a, nl, nr, R, role):
    return Task('plan_' + a, 'join_plan_harness', {'api': a, 'nl': nl, 'nr': nr, 'R': R},
                 bounds='join builder chain %s executed from MIR into a logical plan (binary connection with the strategies the '
                        'builder chose), evaluated over %d left / %d right (key in {0,1}, id) items spread over %d source replicas '
                        'per side in every way; real join operator driven from MIR, every arrival interleaving incl. which side '
                        'ends first; one iteration' % (a, nl, nr, R), role=role,
                 opts={'covers': ['matched_pair']}, budget=600)


# ------------------------------------------------------------------------------------ merge (C09)

def merge_plan_harness(w, nl, nr, R):
    fns = w.impls[(None, 'Stream')]['merge']
    fn = [f for f in fns if 'Keyed' not in f.header.split('(')[0]][0] if len(fns) > 1 else fns[0]

    def h(ex):
        lefts = [Int('u64', 10 + j) for j in range(nl)]
        rights = [Int('u64', 20 + j) for j in range(nr)]
        il, ir = [[] for _ in range(R)], [[] for _ in range(R)]
        wl, wr = [], []
        for it in lefts:
            wl.append(ex.choose(R, 'source replica'))
            il[wl[-1]].append(it)
        for it in rights:
            wr.append(ex.choose(R, 'source replica'))
            ir[wr[-1]].append(it)
        if ex.env.get('native'):
            runner, prof = ex.env['native']
            ex.env['native_used'] = True
            txt = runner('pipe_merge', [R, nl] + [x.v for x in lefts] + [nr] + [x.v for x in rights])[prof]
            ex.env['native_out'] = txt
            if txt == 'PANIC' or txt.startswith(('BADARGS', 'UNKNOWN', 'NORESULT', 'NOOUTPUT', 'TIMEOUT')):
                raise Unsupported('native driver: ' + txt)
            got = sorted(int(t) for t in txt.split() if t != '-')
            if got != sorted(x.v for x in lefts + rights):
                raise Violation('the real merge job yields %s, expected the multiset union of %s and %s' %
                                (got, [x.v for x in lefts], [x.v for x in rights]), hlib._wit(ex))
            return {'native': txt}
        res = ex.call_function(fn, [SymStream(), SymStream()])
        plan = unwrap_stream(res)
        outs = evaluate(ex, w, plan, il, R, inputs_right=ir)
        got = sorted(e.fields[0].v for o in outs for e in _data(o))
        sx = lambda: {'left': [[repr(x) for x in p] for p in il], 'right': [[repr(x) for x in p] for p in ir],
                      'output': [[repr(e) for e in o] for o in outs]}
        if got != sorted(x.v for x in lefts + rights):
            raise Violation('merge output %s is not the multiset union of its inputs' % got, hlib._wit(ex), sx())
        for o in outs:
            ids = [e.fields[0].v for e in _data(o)]
            for side in (lefts, rights):
                mine = [x for x in ids if x in [s.v for s in side]]
                if mine != sorted(mine):
                    raise Violation('merge reordered the elements of one producer', hlib._wit(ex), sx())
        if len(got) > 1:
            hlib.cover(ex, 'merged')
        return sx()
    return h


def merge_plan_tasks(tier, role):
    nl, nr = (2, 1) if tier == 'quick' else (2, 2)
    return [Task('plan_merge', 'merge_plan_harness', {'nl': nl, 'nr': nr, 'R': 2},
                 bounds='Stream::merge executed from MIR into a logical plan (binary connection + the real filter_map closure), '
                        'evaluated over %d + %d items spread over 2 replicas per side in every way, every arrival interleaving' %
                        (nl, nr), role=role, opts={'covers': ['merged']}, budget=300)]
