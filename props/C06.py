"""C06 -- watermark safety: no element at or below an already emitted watermark."""
import z3
from lib.runner import Task
from mirsym.values import Int, Agg, Enum, Ref
from mirsym.explore import check, Violation
from mirsym.executor import RustPanic
from mirsym.models import zbool, some, none
from mirsym.models_coll import MapModel
from mirsym import hlib

META = {
    'explanation': 'Watermark safety. (a) WatermarkFrontier::update/reset: one inductive step from an arbitrary '
                   'frontier state satisfying the representation invariant front == compute_frontier(map) '
                   '(N upstream replicas, every entry an arbitrary Option<i64>): a returned watermark is the '
                   'minimum over all replicas, all replicas have one, it is strictly greater than the previously '
                   'returned front, and the invariant is re-established. ',
    'assumptions': ['IndexMap behaves as an insertion-ordered map (model table)',
                    'every upstream script respects the watermark contract'],
    'trusted': ['mirsym MIR executor and its std model table', 'z3 / cvc5'],
}


def frontier_state(ex, w, n):
    """arbitrary WatermarkFrontier over n replicas satisfying the invariant"""
    m = MapModel('IndexMap')
    vals = []
    for i in range(n):
        v = hlib.opt_i64(ex, 'wm%d' % i)
        vals.append(v)
        m.entries.append([hlib.coord(w, 0, 0, i), v])
    if all(v.variant == 'Some' for v in vals):
        front = some(Int('i64', hlib.bv_min([v.fields[0].v for v in vals])))
    else:
        front = none()
    return hlib.mk_struct(w, 'WatermarkFrontier', map=m, front=front), vals, front


def frontier_step(w, n, progress=False):
    upd = w.impls[(None, 'WatermarkFrontier')]['update'][0]
    comp = w.impls[(None, 'WatermarkFrontier')]['compute_frontier'][0]

    def h(ex):
        wf, vals, front = frontier_state(ex, w, n)
        k = ex.choose(n, 'which replica')
        ts = ex.fresh_int('i64', 'ts')
        holder = [wf]
        pre = repr(wf)[:300]
        native = ex.env.get('native')
        if native:
            # reach the pre-state from a fresh frontier (one update per replica that has a watermark), then the step
            ops = []
            for i, v in enumerate(vals):
                if v.variant == 'Some':
                    ops += [0, i, hlib.concrete_int(ex, v.fields[0])]
            ops += [0, k, hlib.concrete_int(ex, ts)]
            ex.env['native_used'] = True
            txt = native[0]('frontier', [1, n] + ops)[native[1]]
            ex.env['native_out'] = txt
            if txt == 'PANIC':
                raise RustPanic('the real WatermarkFrontier panicked')
            tok = txt.split()[-1]
            ret = some(Int('i64', int(tok[2:-1]))) if tok.startswith('S(') else none()
        else:
            ret = ex.call_function(upd, [Ref(holder, 0), hlib.coord(w, 0, 0, k), ts])
        old = vals[k]
        # model of the contract
        ignored = old.variant == 'Some' and None
        new_vals = list(vals)
        if old.variant == 'Some':
            newk = z3.If(ts.v > old.fields[0].v, ts.v, old.fields[0].v)
        else:
            newk = ts.v
        # stored value of replica k afterwards = max(old, ts)
        if not native:
            stored = holder[0].get('map').entries[k][1]
            if stored.variant != 'Some':
                raise Violation('replica entry not Some after update')
            check(ex, stored.fields[0].v == newk, 'frontier entry is not max(old, ts)')
        others = [vals[i] for i in range(n) if i != k]
        complete = all(o.variant == 'Some' for o in others)
        if ret.variant == 'Some':
            hlib.cover(ex, 'returns_some')
            if not complete:
                raise Violation('update returned a watermark although a replica has none yet',
                                hlib._wit(ex), {'n': n, 'k': k})
            mn = hlib.bv_min([o.fields[0].v for o in others] + [newk])
            check(ex, ret.fields[0].v == mn, 'returned watermark is not the minimum over all replicas',
                  {'n': n, 'k': k})
            if front.variant == 'Some':
                check(ex, ret.fields[0].v > front.fields[0].v,
                      'returned watermark is not greater than the previously returned front', {'n': n, 'k': k})
        else:
            hlib.cover(ex, 'returns_none')
            if progress and complete:
                # C17: if the minimum over all replicas increased (or became defined) it must be returned
                mn = hlib.bv_min([o.fields[0].v for o in others] + [newk])
                if front.variant == 'Some':
                    check(ex, z3.Not(mn > front.fields[0].v),
                          'minimum over replicas increased but no watermark was returned', {'n': n, 'k': k})
                else:
                    raise Violation('frontier became complete but no watermark was returned', hlib._wit(ex),
                                    {'n': n, 'k': k})
        if native:
            return {'native': ex.env.get('native_out')}
        # invariant re-established
        f2 = holder[0].get('front')
        c2 = ex.call_function(comp, [Ref(holder, 0)])
        if f2.variant != c2.variant:
            raise Violation('invariant broken: front != compute_frontier(map)')
        if f2.variant == 'Some':
            check(ex, f2.fields[0].v == c2.fields[0].v, 'invariant broken: front != compute_frontier(map)')
        return {'n': n, 'replica': k, 'ts': repr(ts), 'pre': pre, 'ret': repr(ret)}
    return h


def frontier_reset(w, n):
    rst = w.impls[(None, 'WatermarkFrontier')]['reset'][0]

    def h(ex):
        wf, vals, front = frontier_state(ex, w, n)
        holder = [wf]
        native = ex.env.get('native')
        if native:
            # observable consequence: after reset the frontier behaves like a fresh one, also for smaller values
            ops = []
            low = None
            for i, v in enumerate(vals):
                if v.variant == 'Some':
                    c = hlib.concrete_int(ex, v.fields[0])
                    ops += [0, i, c]
                    low = c if low is None else min(low, c)
            newv = (low if low is not None else 0) - 1
            ops += [1, 0, 0]
            for i in range(n):
                ops += [0, i, newv]
            ex.env['native_used'] = True
            txt = native[0]('frontier', [1, n] + ops)[native[1]]
            ex.env['native_out'] = txt
            toks = txt.split()
            tail = toks[-n:]
            if tail != ['N'] * (n - 1) + ['S(%d)' % newv]:
                raise Violation('reset leaves a watermark behind (after reset the frontier does not behave like a fresh one)')
            return {'native': txt}
        ex.call_function(rst, [Ref(holder, 0)])
        if holder[0].get('front').variant != 'None' or \
                any(e[1].variant != 'None' for e in holder[0].get('map').entries):
            raise Violation('reset leaves a watermark behind')
        hlib.cover(ex, 'end')
        return {'n': n, 'pre': repr(wf)[:200]}
    return h


def frontier_tasks(tier, progress=False):
    ns = [1, 2, 3] if tier == 'quick' else [1, 2, 3, 4, 5]
    ts = []
    for n in ns:
        ts.append(Task('frontier_update_n%d' % n, 'frontier_step', {'n': n, 'progress': progress},
                       bounds='%d upstream replicas; every entry an arbitrary Option<i64>, ts arbitrary i64, '
                              'any replica updated; one step from any invariant state' % n,
                       role='frontier', opts={'covers': ['returns_some', 'returns_none']}))
        ts.append(Task('frontier_reset_n%d' % n, 'frontier_reset', {'n': n},
                       bounds='%d replicas, arbitrary state' % n, role='frontier', opts={'covers': ['end']}))
    return ts


def TASKS(tier):
    from props.start import start_tasks
    from props.ops import fold_tasks, keyed_fold_tasks, window_op_tasks, flat_map_tasks
    return (frontier_tasks(tier) +
            [t for t in start_tasks(tier, 'start', progress=False) if t.params.get('timed')] + fold_tasks(tier, 'fold') +
            keyed_fold_tasks(tier, 'keyed_fold') + window_op_tasks(tier, 'window_operator') +
            flat_map_tasks(tier, 'flat_map') + zip_wm_tasks(tier, 'zip'))


from props.binary import zip_harness, zip_wm_tasks          # noqa: E402
from props.start import start_harness, classify_start      # noqa: E402
from props.ops import fold_harness, keyed_fold_harness, window_op_harness, flat_map_harness    # noqa: E402


def classify(t, v):
    if t.factory == 'start_harness':
        return classify_start(t, v)
    return t.role
