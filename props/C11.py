"""C11 -- side inputs of a loop are replayed completely and identically every round."""
from props.binary import *     # noqa

META = {
    'explanation': 'Side inputs: the real Start<BinaryStartReceiver> (select / process_side / SideReceiver cache) with one '
                   'cached side and stub network receivers: the outside input is delivered once by its producers (any '
                   'batch interleaving with the loop side), the loop side runs several rounds; every round must see the '
                   'complete cached content exactly once and in the same per-producer order, one LeftEnd and one '
                   'RightEnd, and Terminate is produced once at the very end.',
    'assumptions': ['no upstream replica starts round k+1 before all have ended round k'],
    'trusted': ['mirsym MIR executor and its std model table', 'z3 / cvc5'],
}


def TASKS(tier):
    return cache_tasks(tier, 'side_input_cache')
