"""C05 -- stream control protocol holds at every operator boundary."""
from props.ops import *        # noqa
from props.start import *      # noqa
from props.joins import *      # noqa

from props.binary import cache_tasks, cache_harness      # noqa: E402

META = {
    'explanation': 'Stream grammar: Start (N upstream replicas, every arrival interleaving, timeouts) and the stateful '
                   'operators (Fold, KeyedFold, Reorder, FlatMap, joins, WindowOperator over count and event-time windows) are driven to '
                   'Terminate over every grammar-valid symbolic upstream script within the bound; the output word '
                   'is checked against ((Item|Timestamped|Watermark|FlushBatch)* FlushAndRestart)+ Terminate, with '
                   'one FlushAndRestart per input iteration, all results of an iteration before its marker, and '
                   'the per-iteration result equal to what a fresh operator produces.',
    'assumptions': ['upstream emits a grammar-valid sequence',
                    'no upstream replica starts iteration k+1 before all have ended iteration k (loop barrier)'],
    'trusted': ['mirsym MIR executor and its std model table', 'z3 / cvc5'],
}


def TASKS(tier):
    return (start_tasks(tier, 'start', progress=False) + fold_tasks(tier, 'fold') + keyed_fold_tasks(tier, 'keyed_fold') +
            window_op_tasks(tier, 'window_operator') + flat_map_tasks(tier, 'flat_map') + reorder_tasks(tier, 'reorder') +
            [t for t in join_tasks(tier, 'join') if t.params['iters'] > 1] +
            # the binary Start with a cached side input (inside a loop): its output must be a word of the grammar too,
            # also when batch timeouts fire at an iteration boundary
            [t for t in cache_tasks(tier, 'binary_start_cache') if t.params.get('timeouts') or t.params['rounds'] >= 3])


def classify(t, v):
    if t.factory == 'start_harness':
        return classify_start(t, v)
    return t.role
