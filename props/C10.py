"""C10 -- loops compute the sequential fixed point; each round sees the previous state (sequential logic)."""
import z3
from lib.runner import Task
from mirsym.values import Int, Agg, Enum, Ref, Opaque, deep_copy, unit, mk_int
from mirsym.executor import PyObj, Unsupported
from mirsym.explore import check, Violation
from mirsym.models import zbool, some, none, ok, err, deref
from mirsym.models_coll import VecModel, ArcModel, MutexModel, DequeModel
from mirsym import hlib
from props.ops import UF, val64
from props.end import SenderStub
from props.start import exec_metadata, start_harness, classify_start

META = {
    'explanation': 'Iterations, sequential logic. IterationLeader::setup/next over the real Start with N IterationEnd '
                   'replicas whose deltas arrive in every order, a loop condition that answers arbitrarily, nested use '
                   '(several outer rounds): each round folds exactly one delta per replica into the state, continues iff '
                   'condition && index < max, broadcasts (Continue, new state) / (Finished, initial state) exactly once '
                   'to every feedback replica, emits the final state followed by FlushAndRestart and restarts from the '
                   'initial state. IterationEnd: one delta per round, the default one iff the body produced nothing. Replay and '
                   'Iterate with the real IterationStateHandler: replay re-feeds the complete input every round, iterate feeds '
                   'the output of round k into round k+1 and emits the last round downstream, the state lock is held from '
                   'every FlushAndRestart until the new state is published. '
                   'The cross-thread part (every replica on every host reads exactly the state of round k-1 through the '
                   'state lock / barrier) is outside the technique.',
    'assumptions': ['every IterationEnd replica sends its delta of round k only after the feedback of round k-1 '
                    '(closed loop)', 'user functions are pure'],
    'trusted': ['mirsym MIR executor and its std model table', 'z3 / cvc5'],
}


class LoopNet(PyObj):
    """network of the leader: delta receiver (closed loop with the feedback it sends) and feedback senders"""
    name = 'NetworkTopology'

    def __init__(self, w, nends, nfeedback, outer_rounds):
        self.w = w
        self.ends = [hlib.coord(w, 5, 0, i) for i in range(nends)]
        self.feedback = [FeedbackSender(self, i) for i in range(nfeedback)]
        self.fb_cur = []
        self.rounds = []                       # completed rounds: (deltas in arrival order, [feedback per sender])
        self.outer = 0
        self.outer_rounds = outer_rounds
        self.pending = list(range(nends))      # ends that still owe the delta of the current round
        self.round = 0
        self.outer_left = outer_rounds
        self.deltas = []                       # per round: list of (end, delta Int) in arrival order
        self.cur = []
        self.terminating = False
        self.term_left = list(range(nends))

    def trait_call(self, ex, trait, method, args):
        if method == 'get_senders':
            return VecModel([Agg('tuple', None, [hlib.mk_struct(self.w, 'ReceiverEndpoint', coord=hlib.coord(self.w, 6, 0, i),
                                                                 prev_block_id=Int('u64', 4)), s])
                             for i, s in enumerate(self.feedback)])
        if method == 'get_receiver':
            return LoopRx(self)
        raise Unsupported('LoopNet ' + method)


class FeedbackSender(SenderStub):
    """feedback link leader -> loop body replicas; closes the loop: the replicas answer a Continue with the deltas of
    the next round, a Finished with the next outer round or with Terminate"""

    def __init__(self, net, i):
        SenderStub.__init__(self, ('fb', i))
        self.net = net

    def trait_call(self, ex, trait, method, args):
        r = SenderStub.trait_call(self, ex, trait, method, args)
        if method == 'send':
            net = self.net
            net.fb_cur.append((self.tag, self.sent[-1][1]))
            if len(net.fb_cur) == len(net.feedback):
                kinds = set(b[0].fields[0].fields[0].variant for _, b in net.fb_cur)
                net.rounds.append((net.cur, net.fb_cur))
                net.cur, net.fb_cur = [], []
                if kinds == {'Continue'}:
                    net.pending = list(range(len(net.ends)))
                else:
                    net.outer += 1
                    if net.outer < net.outer_rounds:
                        net.pending = list(range(len(net.ends)))
                    else:
                        net.terminating = True
        return r


class LoopRx(PyObj):
    name = 'NetworkReceiver'

    def __init__(self, net):
        self.net = net

    def trait_call(self, ex, trait, method, args):
        net = self.net
        if method not in ('recv', 'recv_timeout'):
            raise Unsupported('LoopRx ' + method)
        new_single = net.w.impls[(None, 'NetworkMessage')]['new_single'][0]
        if net.terminating:
            if not net.term_left:
                raise Violation('leader waits for deltas although every IterationEnd replica has terminated (deadlock)')
            i = net.term_left.pop(ex.choose(len(net.term_left), 'terminate order') if len(net.term_left) > 1 else 0)
            return ok(ex.call_function(new_single, [hlib.se('Terminate'), deep_copy(net.ends[i])]))
        if not net.pending:
            raise Violation('leader waits for another delta in a round in which every replica already sent one: the '
                            'loop is stuck')
        i = net.pending.pop(ex.choose(len(net.pending), 'delta arrival') if len(net.pending) > 1 else 0)
        d = ex.fresh_int('u64', 'delta_r%d_e%d' % (len(net.deltas), i))
        net.cur.append((i, d))
        return ok(ex.call_function(new_single, [hlib.se('Item', d), deep_copy(net.ends[i])]))


class Cond(PyObj):
    """loop condition: arbitrary answer per call; records the state it was asked about"""
    name = 'VerifLoopCond'

    def __init__(self):
        self.calls = []

    def trait_call(self, ex, trait, method, args):
        if trait in ('Fn', 'FnMut', 'FnOnce'):
            st = args[1].fields[0].get()
            ans = ex.choose(2, 'loop condition') == 1
            self.calls.append((st, ans))
            return ans
        if trait == 'Clone':
            return self
        raise Unsupported('Cond %s' % method)


def leader_harness(w, nends, nfeedback, max_iter, outer_rounds):
    new = w.impls[(None, 'IterationLeader')]['new'][0]
    setup = w.impls[('Operator', 'IterationLeader')]['setup'][0]
    nxt = w.impls[('Operator', 'IterationLeader')]['next'][0]
    hlib.check_se_table(w)
    irv = dict(w.src.enum_variants('IterationResult'))

    def h(ex):
        init = ex.fresh_int('u64', 'initial_state')
        cond = Cond()
        fb_id = ArcModel(MutexModel(Int('usize', 5)))
        leader = ex.call_function(new, [init, Int('usize', max_iter), UF(), cond, fb_id])
        net = LoopNet(w, nends, nfeedback, outer_rounds)
        md = exec_metadata(w, hlib.coord(w, 4, 0, 0), False)
        md.set('network', Ref([net], 0))
        md.set('prev', VecModel([Agg('tuple', None, [deep_copy(c), Opaque('TypeId')]) for c in net.ends]))
        holder = [leader]
        ex.call_function(setup, [Ref(holder, 0), Ref([md], 0)])
        out = []
        for step in range(4 * (max_iter + 1) * (outer_rounds + 1) + 6):
            el = ex.call_function(nxt, [Ref(holder, 0)])
            out.append(el)
            if el.variant == 'Terminate':
                break
        else:
            raise Violation('leader did not terminate', hlib._wit(ex))
        if net.cur or net.fb_cur:
            raise Violation('leader stopped in the middle of a round', hlib._wit(ex))
        rounds = [([(i, d) for i, d in deltas], [(t, b[0].fields[0].fields[0].variant, b[0].fields[0].fields[1]) for t, b in fbs])
                  for deltas, fbs in net.rounds]
        answers = [a for _, a in cond.calls]
        asked = [st for st, _ in cond.calls]
        outs = [(e.variant, e.fields[0] if e.variant == 'Item' else None) for e in out]
        if ex.env.get('native'):
            # the real leader gets the same deltas in the same order and the same condition answers
            runner, prof = ex.env['native']
            args = [nends, nfeedback, max_iter, hlib.concrete_int(ex, init), len(rounds)]
            for r, (deltas, _) in enumerate(rounds):
                args.append(int(answers[r]) if r < len(answers) else 0)
                for i, d in deltas:
                    args += [i, hlib.concrete_int(ex, d)]
            ex.env['native_used'] = True
            txt = runner('leader', args, timeout=120)[prof]
            ex.env['native_out'] = txt
            if txt == 'PANIC' or not txt.startswith('OUT'):
                from mirsym.executor import RustPanic
                raise RustPanic('the real IterationLeader failed: ' + txt)
            o_part, f_part = txt[3:].split(';')
            outs = []
            for tok in o_part.split():
                if tok in ('TIMEOUT', 'OVERRUN'):
                    raise Violation('the real leader does not terminate (%s)' % tok, hlib._wit(ex))
                e = hlib.parse_token(tok)
                outs.append((e.variant, e.fields[0] if e.variant == 'Item' else None))
            nrounds = []
            groups = f_part.strip()[2:].split('|') if f_part.strip().startswith('FB') else []
            if any(g.strip().startswith('EXTRA') for g in groups):
                raise Violation('feedback sent more than once to a replica in some round', hlib._wit(ex), {'native': txt})
            for r, (deltas, _) in enumerate(rounds):
                toks = groups[r].split() if r < len(groups) else []
                fbs = []
                for j, tok in enumerate(toks):
                    if tok == '-':
                        continue
                    fbs.append((('fb', j), 'Continue' if tok[0] == 'C' else 'Finished', Int('u64', int(tok[2:-1]))))
                nrounds.append((deltas, fbs))
            rounds = nrounds
            asked = None
        sx = lambda: {'nends': nends, 'max_iter': max_iter, 'outputs': [(k, repr(v)) for k, v in outs],
                      'rounds': [([(i, repr(d)) for i, d in ds], [(t, k, repr(st)) for t, k, st in fbs]) for ds, fbs in rounds],
                      'cond': answers}
        state, index, finished = init.z(), 0, 0
        items = [v for k, v in outs if k == 'Item']
        for r, (deltas, fbs) in enumerate(rounds):
            if sorted(i for i, _ in deltas) != list(range(nends)):
                raise Violation('a round did not fold exactly one delta of every replica', hlib._wit(ex), sx())
            for _, d in deltas:
                state = UF.F(state, d.z()) if not ex.env.get('native') else state * 31 + d.z() + 1
            index += 1
            if r >= len(answers):
                raise Violation('loop condition not evaluated after a round', hlib._wit(ex), sx())
            if asked is not None:
                check(ex, asked[r].z() == state, 'loop condition evaluated on a state that is not the fold of exactly '
                      'the deltas of this round over the previous state', sx)
            cont = answers[r] and index < max_iter
            if sorted(t for t, _, _ in fbs) != sorted(s_.tag for s_ in net.feedback):
                raise Violation('feedback not sent exactly once to every replica after a round', hlib._wit(ex), sx())
            for _, kind, st in fbs:
                if kind != ('Continue' if cont else 'Finished'):
                    raise Violation('leader decided %s but condition=%s index=%d max=%d' %
                                    (kind, answers[r], index, max_iter), hlib._wit(ex), sx())
                check(ex, st.z() == (state if cont else init.z()),
                      'state sent to the replicas is not the new state (Continue) / the initial state (Finished)', sx)
            if cont:
                hlib.cover(ex, 'continued')
            else:
                if finished >= len(items):
                    raise Violation('leader did not emit the final state when the loop finished', hlib._wit(ex), sx())
                check(ex, items[finished].z() == state, 'emitted final state is not the state of the last round', sx)
                finished += 1
                state, index = init.z(), 0
                hlib.cover(ex, 'finished')
        kinds = [k for k, _ in outs]
        want = ['Item', 'FlushAndRestart'] * finished + ['Terminate']
        if kinds != want or finished != outer_rounds:
            raise Violation('leader output %s, expected %s' % (kinds, ['Item', 'FlushAndRestart'] * outer_rounds + ['Terminate']),
                            hlib._wit(ex), sx())
        return sx()
    return h


# ------------------------------------------------------------------------------------ IterationEnd

class EndNet(PyObj):
    name = 'NetworkTopology'

    def __init__(self, w):
        self.w = w
        self.sender = SenderStub('leader')

    def trait_call(self, ex, trait, method, args):
        if method == 'replicas':
            return VecModel([hlib.coord(self.w, 4, 0, 0)])
        if method == 'get_sender':
            return self.sender
        raise Unsupported('EndNet ' + method)


def iteration_end_harness(w, rounds):
    new = w.impls[(None, 'IterationEnd')]['new'][0]
    setup = w.impls[('Operator', 'IterationEnd')]['setup'][0]
    nxt = w.impls[('Operator', 'IterationEnd')]['next'][0]
    hlib.check_se_table(w)

    def h(ex):
        ex.env['generics'] = {'DeltaUpdate': 'u64'}
        # the body ends with a fold: at most one item per round
        script = []
        has = []
        for r in range(rounds):
            k = ex.choose(2, 'body produced a delta')
            has.append(k)
            if k:
                script.append(hlib.se('Item', ex.fresh_int('u64', 'delta%d' % r)))
            script.append(hlib.se('FlushAndRestart'))
        script.append(hlib.se('Terminate'))
        op = ex.call_function(new, [hlib.Upstream(script), Int('u64', 4)])
        net = EndNet(w)
        md = exec_metadata(w, hlib.coord(w, 5, 0, 0), False)
        md.set('network', Ref([net], 0))
        holder = [op]
        ex.call_function(setup, [Ref(holder, 0), Ref([md], 0)])
        if ex.env.get('native'):
            txt = hlib.native_run(ex, 'iteration_end', [], script)
            if '||' not in txt:
                raise Unsupported('native iteration_end output: ' + txt)
            a, b = txt.split('||', 1)
            if 'OVERRUN' in a.split():
                raise Violation('IterationEnd does not terminate on this input (native run overran)', hlib._wit(ex))
            out = [hlib.se('Item', unit()) if t == 'I()' else hlib.parse_token(t) for t in a.split()]
            sent = [hlib.parse_token(t) for t in b.split()]
            ex.env['last_output'] = out
        else:
            out = hlib.drive(ex, nxt, holder, len(script) + 2)
            sent = [e for _, b in net.sender.sent for e in b]
        sx = lambda: {'script': [repr(e) for e in script], 'sent': [repr(e) for e in sent]}
        want = []
        for r in range(rounds):
            want.append('Item')
        want.append('Terminate')
        if [e.variant for e in sent] != want:
            raise Violation('IterationEnd does not send exactly one delta per round and a final Terminate',
                            hlib._wit(ex), sx())
        it = iter(e for e in script if e.variant == 'Item')
        for r in range(rounds):
            if has[r]:
                check(ex, sent[r].fields[0].z() == next(it).fields[0].z(), 'IterationEnd altered the delta', sx)
            else:
                hlib.cover(ex, 'default_delta')
                check(ex, sent[r].fields[0].z() == 0, 'IterationEnd did not send the default delta for an empty round', sx)
        return sx()
    return h


def state_lock_harness(w):
    lock = w.impls[(None, 'IterationStateLock')]['lock'][0]
    unlock = w.impls[(None, 'IterationStateLock')]['unlock'][0]
    wait = w.impls[(None, 'IterationStateLock')]['wait_for_update'][0]

    def h(ex):
        g0 = ex.fresh_int('usize', 'generation')
        ex.assume(z3.ULT(g0.v, 1 << 40))
        lk = hlib.mk_struct(w, 'IterationStateLock', generation=MutexModel(g0), cond_var=Opaque('Condvar'))
        holder = [lk]
        gen = lambda: holder[0].get('generation').slot[0]
        op = ex.choose(3, 'operation')
        if ex.env.get('native'):
            from mirsym.executor import RustPanic
            if op == 1:
                ex.assume(z3.URem(g0.v, 2) == 1)
            want = ex.fresh_int('usize', 'wanted') if op == 2 else None
            g = hlib.concrete_int(ex, g0)
            wv = min(hlib.concrete_int(ex, want), 1 << 62) if want is not None else 0
            runner, prof = ex.env['native']
            ex.env['native_used'] = True
            txt = runner('state_lock', [op, g, wv])[prof]
            ex.env['native_out'] = txt
            if txt == 'PANIC':
                raise RustPanic('IterationStateLock panicked (operation %d, generation %d)' % (op, g))
            if op == 0 and not (txt[:1] == 'G' and int(txt[1:]) % 2 == 1 and g <= int(txt[1:]) <= g + 1):
                raise Violation('lock() does not leave an odd generation one step ahead at most (native: %d -> %s)' % (g, txt))
            if op == 1 and txt != 'G%d' % (g + 1):
                raise Violation('unlock() does not publish generation + 1 (native: %d -> %s)' % (g, txt))
            if op == 2 and txt == 'RETURNED' and g < wv:
                raise Violation('wait_for_update returned although the generation is older than requested (native: '
                                'generation %d, wanted %d)' % (g, wv))
            if op == 2 and txt == 'BLOCKED' and g >= wv:
                raise Violation('wait_for_update blocks although the generation is already the requested one (native: '
                                'generation %d, wanted %d)' % (g, wv))
            return {'native': txt}
        if op == 0:
            ex.call_function(lock, [Ref(holder, 0)])
            check(ex, z3.And(z3.URem(gen().z(), 2) == 1, z3.UGE(gen().z(), g0.v), z3.ULE(gen().z(), g0.v + 1)),
                  'lock() does not leave an odd generation one step ahead at most')
        elif op == 1:
            ex.assume(z3.URem(g0.v, 2) == 1)
            ex.call_function(unlock, [Ref(holder, 0)])
            check(ex, gen().z() == g0.v + 1, 'unlock() does not publish generation + 1')
        else:
            want = ex.fresh_int('usize', 'wanted')
            ex.env['condvar_blocked'] = False
            ex.call_function(wait, [Ref(holder, 0), want])
            if not ex.env.get('condvar_blocked'):
                check(ex, z3.UGE(g0.v, want.v), 'wait_for_update returned although the generation is older than requested')
                hlib.cover(ex, 'wait_returned')
        hlib.cover(ex, 'end')
        return {'op': op, 'generation': repr(g0)}
    return h


def TASKS(tier):
    from props.start import start_tasks
    ts = []
    for t in start_tasks(tier, 'start_state_wait', progress=False):
        if t.params['iters'] > 1 and not t.params.get('adaptive'):
            t.params['lock'] = True
            t.name += '_lock'
            t.opts = dict(t.opts, covers=['waited_for_state'])
            ts.append(t)
    ts.append(Task('state_lock', 'state_lock_harness', {}, bounds='IterationStateLock::{lock,unlock,wait_for_update}: one '
                   'call from an arbitrary generation (< 2^40), arbitrary requested generation', role='state_lock',
                   opts={'covers': ['end', 'wait_returned']}))
    cfgs = [(2, 2, 2, 1), (1, 1, 3, 2), (3, 1, 2, 1)] if tier == 'quick' else \
        [(2, 2, 3, 2), (3, 2, 2, 2), (1, 1, 4, 2), (3, 3, 3, 1)]
    for ne, nf, mi, outer in cfgs:
        ts.append(Task('leader_e%d_f%d_m%d_o%d' % (ne, nf, mi, outer), 'leader_harness',
                       {'nends': ne, 'nfeedback': nf, 'max_iter': mi, 'outer_rounds': outer},
                       bounds='IterationLeader with %d IterationEnd replicas (deltas symbolic, every arrival order), %d '
                              'feedback replicas, max %d iterations, loop condition arbitrary per round, %d outer round(s)' %
                              (ne, nf, mi, outer), role='leader', opts={'covers': ['continued', 'finished']}, budget=300))
    ts.append(Task('iteration_end', 'iteration_end_harness', {'rounds': 3 if tier == 'quick' else 4},
                   bounds='IterationEnd over 3-4 rounds, each with or without a delta from the body', role='iteration_end',
                   opts={'covers': ['default_delta']}))
    return ts


# ------------------------------------------------------------------------------------ Replay

class StateHandleStub(PyObj):
    """IterationStateHandle: records every state published to the loop body together with the lock generation"""
    name = 'IterationStateHandle'

    def __init__(self, lock_holder):
        self.sets = []
        self.lock_holder = lock_holder

    def trait_call(self, ex, trait, method, args):
        if method == 'set':
            gen = self.lock_holder[0].get('generation').slot[0]
            self.sets.append((args[1], gen))
            return unit()
        if trait == 'Clone':
            return self
        return NotImplemented


class FeedbackRx(PyObj):
    """the leader's feedback channel as seen by one Replay replica"""
    name = 'NetworkReceiver'

    def __init__(self, w, msgs):
        self.w = w
        self.msgs = list(msgs)

    def trait_call(self, ex, trait, method, args):
        if method == 'recv':
            if not self.msgs:
                raise Violation('Replay waits for a state update that the leader never sends (stuck)')
            new_single = self.w.impls[(None, 'NetworkMessage')]['new_single'][0]
            kind, st = self.msgs.pop(0)
            irv = dict(self.w.src.enum_variants('IterationResult'))
            item = Agg('tuple', None, [Enum('IterationResult', kind, irv[kind], []), st])
            return ok(ex.call_function(new_single, [hlib.se('Item', item), hlib.coord(self.w, 4, 0, 0)]))
        return NotImplemented



def _native_loop(ex, kind, script, rounds, outer):
    """public-API replay of a whole loop (replay kinds `pipe_replay` / `pipe_iterate`, SPEC sixth batch): the real job on
    the input items of the witness for the witness' number of rounds, compared with the sequential fixed point.
    The body / folds / condition are the fixed ones of the driver; timestamps, watermarks and nested loops are not
    reproduced (nested: inconclusive)."""
    from mirsym.executor import RustPanic
    M = (1 << 64) - 1
    xs = [hlib.concrete_int(ex, e.fields[0]) for e in script if e.variant in ('Item', 'Timestamped')]
    r = rounds[0]
    runner, prof = ex.env['native']
    ex.env['native_used'] = True
    res = {}
    # (b) the same loop nested in an outer replay (the inner body reads the inner state): the loop must restart cleanly
    # for each outer round.  Input: the witness' items (1, 2, 3 when it has none), at least two rounds on both levels.
    nxs = xs or [1, 2, 3]
    o, i = max(outer, 2), max(r, 2)
    for par in (1, 3):
        txt = runner('pipe_nested', [par, o, i, len(nxs)] + nxs)[prof]
        res['nested', par] = txt
        ex.env['native_out'] = res
        if txt == 'PANIC':
            raise RustPanic('the real nested replay job panicked (parallelism %d)' % par)
        if txt.startswith(('BADARGS', 'UNKNOWN', 'NORESULT')):
            raise Unsupported('native driver: ' + txt)
        v = 0
        for k in range(i):
            v = (v + sum((31 * x + v) & M for x in nxs)) & M
        want = str((o * v) & M)
        if txt.startswith('TIMEOUT') or ' '.join(txt.split()) != want:
            raise Violation('the real nested job replay(%d){replay(%d){x*31 + state}} over %s (parallelism %d) yields "%s", the '
                            'sequential fixed point is "%s"' % (o, i, nxs, par, txt, want), hlib._wit(ex))
    # (a) the single loop on the witness' items for the witness' number of rounds
    for par in ((1, 2, 3) if outer == 1 else ()):
        txt = runner(kind, [par, r, len(xs)] + xs)[prof]
        res[par] = txt
        ex.env['native_out'] = res
        if txt == 'PANIC':
            raise RustPanic('the real %s job panicked (parallelism %d)' % (kind, par))
        if txt.startswith(('BADARGS', 'UNKNOWN', 'NORESULT')):
            raise Unsupported('native driver: ' + txt)
        if txt.startswith('TIMEOUT'):
            raise Violation('the real %s job does not terminate (parallelism %d, %d rounds, input %s)' % (kind, par, r, xs), hlib._wit(ex))
        value, cur = 0, list(xs)
        for k in range(r):
            if kind == 'pipe_replay':
                body = [(x * 31 + value) & M for x in xs]
            else:
                cur = [(x + value + 1) & M for x in cur]
                body = cur
            value = (value + sum(body)) & M
        want = str(value) if kind == 'pipe_replay' else '%d || %s' % (value, ' '.join(map(str, sorted(cur))) or '-')
        if ' '.join(txt.split()) != want:
            raise Violation('the real %s job (parallelism %d, %d rounds, input %s) yields "%s", the sequential fixed point is '
                            '"%s"' % (kind, par, r, xs, txt, want), hlib._wit(ex))
    return {'native': res}


def replay_harness(w, outer, max_len, max_rounds):
    nxt = w.impls[('Operator', 'Replay')]['next'][0]
    hlib.check_se_table(w)

    def h(ex):
        # input: `outer` iterations of the outer stream (nested loop), each replayed 1..max_rounds times
        script = hlib.gen_script(ex, outer, max_len, 'ITW', ts_span=(1000, 5),
                                 payload=lambda ex, k: Int('u64', k))
        rounds, msgs = [], []
        for o in range(outer):
            r = 1 + ex.choose(max_rounds, 'rounds')
            rounds.append(r)
            for k in range(r - 1):
                msgs.append(('Continue', ex.fresh_int('u64', 'state_%d_%d' % (o, k))))
            msgs.append(('Finished', ex.fresh_int('u64', 'state_%d_final' % o)))
        if ex.env.get('native'):
            return _native_loop(ex, 'pipe_replay', script, rounds, outer)
        lock = hlib.mk_struct(w, 'IterationStateLock', generation=MutexModel(Int('usize', 0)), cond_var=Opaque('Condvar'))
        lock_holder = [lock]
        handle = StateHandleStub(lock_holder)
        rx = FeedbackRx(w, msgs)
        sh = hlib.mk_struct(w, 'IterationStateHandler', coord=hlib.coord(w, 2, 0, 0), new_state_receiver=some(rx),
                            leader_block_id=Int('u64', 4), is_local_leader=True, num_local_replicas=Int('usize', 1),
                            state_ref=handle, state_barrier=ArcModel(MutexModel(None)), state_lock=ArcModel(slot=lock_holder))
        rp = hlib.mk_struct(w, 'Replay', coord=hlib.coord(w, 2, 0, 0), state=sh, prev=hlib.Upstream(script),
                            content=VecModel([]), content_index=Int('usize', 0), input_finished=False)
        holder = [rp]
        out, gens = [], []
        total = sum(rounds) * (max_len if isinstance(max_len, int) else max(max_len)) + 8 * outer + 8
        while True:
            el = ex.call_function(nxt, [Ref(holder, 0)])
            out.append(el)
            gens.append(lock_holder[0].get('generation').slot[0])
            if el.variant == 'Terminate':
                break
            if len(out) > 4 * total:
                raise Violation('Replay does not terminate', hlib._wit(ex))
        sx = lambda: {'script': [repr(e) for e in script], 'rounds': rounds, 'output': [repr(e) for e in out]}
        ins = hlib.split_iterations(script)
        want = []
        for o in range(outer):
            for k in range(rounds[o]):
                want += ins[o] + [hlib.se('FlushAndRestart')]
        want.append(hlib.se('Terminate'))
        if [e.variant for e in out] != [e.variant for e in want]:
            raise Violation('Replay output %s, expected every round to re-feed the complete input: %s' %
                            ([e.variant for e in out], [e.variant for e in want]), hlib._wit(ex), sx())
        for a, b in zip(out, want):
            if a.variant in ('Item', 'Timestamped') and a.fields[0].v != b.fields[0].v:
                raise Violation('Replay re-feeds different or reordered elements', hlib._wit(ex), sx())
            ta, tb = hlib.ts_of(a), hlib.ts_of(b)
            if ta is not None:
                check(ex, ta.v == tb.v, 'Replay altered a timestamp', sx)
        # the state lock is taken (odd generation) from every FlushAndRestart until the new state is published
        for el, g in zip(out, gens):
            if el.variant == 'FlushAndRestart':
                if ex.concretize(g) % 2 != 1:
                    raise Violation('Replay did not lock the iteration state when the round ended', hlib._wit(ex), sx())
        if len(handle.sets) != len(msgs):
            raise Violation('%d state updates published for %d feedback messages' % (len(handle.sets), len(msgs)),
                            hlib._wit(ex), sx())
        for (st, g), (_, want_st) in zip(handle.sets, msgs):
            check(ex, st.z() == want_st.z(), 'state published to the loop body is not the one received from the leader', sx)
            if ex.concretize(g) % 2 != 1:
                raise Violation('state published while the state lock is not held', hlib._wit(ex), sx())
        if any(r > 1 for r in rounds):
            hlib.cover(ex, 'replayed')
        return sx()
    return h


_leader_tasks = TASKS


def TASKS(tier):     # noqa: F811
    ts = _leader_tasks(tier)
    for outer, ml, mr in ([(1, 2, 3), (2, [2, 1], 2)] if tier == 'quick' else [(1, 3, 3), (2, [2, 2], 3)]):
        ts.append(Task('replay_o%d_r%d' % (outer, mr), 'replay_harness', {'outer': outer, 'max_len': ml, 'max_rounds': mr},
                       bounds='Replay::next with the real IterationStateHandler / IterationStateLock: %d outer iteration(s) x '
                              '<=%s elements, each replayed 1..%d rounds (leader feedback Continue*/Finished, states '
                              'symbolic)' % (outer, ml, mr), role='replay', opts={'covers': ['replayed']}, budget=300))
    return ts


# ------------------------------------------------------------------------------------ Iterate

class IterEnv:
    """environment of one Iterate replica: the outer input, the feedback link (output of the loop body) and the
    leader's state feedback.  Causality: the body's output of round k exists only after Iterate has emitted the
    FlushAndRestart of round k; the state update of round k only after the whole feedback of round k was delivered."""

    def __init__(self, w, inputs, feedbacks, states):
        self.w = w
        self.inputs = [list(b) for b in inputs]          # batches of the outer input (all outer rounds, then Terminate)
        self.feedbacks = [list(r) for r in feedbacks]    # per round: batches of the body output (last ends with F&R)
        self.states = list(states)                       # per round: (kind, state)
        self.round = 0                                   # rounds whose FlushAndRestart Iterate has emitted
        self.fb_round = 0                                # round whose feedback is being delivered
        self.state_round = 0
        self.emitted_rounds = 0

    def fb_avail(self):
        return self.fb_round < len(self.feedbacks) and self.fb_round < self.emitted_rounds and bool(self.feedbacks[self.fb_round])

    def state_avail(self):
        return self.state_round < len(self.states) and self.state_round < self.fb_round + (0 if self.fb_avail() else 0) and \
            self.state_round < self.fb_done()

    def fb_done(self):
        """number of rounds whose feedback has been delivered completely"""
        n = 0
        for r in range(len(self.feedbacks)):
            if r < self.emitted_rounds and not self.feedbacks[r]:
                n += 1
            else:
                break
        return n

    def msg(self, ex, batch):
        new_batch = self.w.impls[(None, 'NetworkMessage')]['new_batch'][0]
        return ex.call_function(new_batch, [VecModel([deep_copy(e) for e in batch]), hlib.coord(self.w, 9, 0, 0)])

    def take(self, ex, which):
        if which == 'input':
            return self.msg(ex, self.inputs.pop(0))
        if which == 'feedback':
            b = self.feedbacks[self.fb_round].pop(0)
            if not self.feedbacks[self.fb_round]:
                self.fb_round += 1
            return self.msg(ex, b)
        kind, st = self.states[self.state_round]
        self.state_round += 1
        irv = dict(self.w.src.enum_variants('IterationResult'))
        new_single = self.w.impls[(None, 'NetworkMessage')]['new_single'][0]
        item = Agg('tuple', None, [Enum('IterationResult', kind, irv[kind], []), st])
        return ex.call_function(new_single, [hlib.se('Item', item), hlib.coord(self.w, 4, 0, 0)])


class IterRx(PyObj):
    name = 'NetworkReceiver'

    def __init__(self, env, which):
        self.env = env
        self.which = which

    def avail(self):
        e = self.env
        if self.which == 'input':
            return bool(e.inputs)
        if self.which == 'feedback':
            return e.fb_avail()
        return e.state_round < len(e.states) and e.state_round < e.fb_done()

    def trait_call(self, ex, trait, method, args):
        e = self.env
        if method == 'try_recv':
            if self.avail() and ex.choose(2, 'try_recv sees a message') == 1:
                return ok(e.take(ex, self.which))
            return err(Enum('channel::TryRecvError', 'Empty', 0, []))
        if method == 'recv':
            if not self.avail():
                raise Violation('Iterate blocks on its %s channel although nothing can arrive there (stuck)' % self.which)
            return ok(e.take(ex, self.which))
        if method == 'select':
            other = deref(args[1])
            c = [r for r in (self, other) if r.avail()]
            if not c:
                raise Violation('Iterate selects on %s/%s although nothing can arrive (stuck)' % (self.which, other.which))
            pick = c[ex.choose(len(c), 'select') if len(c) > 1 else 0]
            m = e.take(ex, pick.which)
            return Enum('channel::SelectResult', 'A' if pick is self else 'B', 0 if pick is self else 1, [ok(m)])
        return NotImplemented


def iterate_harness(w, max_len, max_rounds, outer=1):
    nxt = w.impls[('Operator', 'Iterate')]['next'][0]
    hlib.check_se_table(w)

    def h(ex):
        # outer input: `outer` iterations, then Terminate; each element its own batch
        script = hlib.gen_script(ex, outer, max_len, 'I', payload=lambda ex, k: Int('u64', k))
        inputs = [[e] for e in script]
        feedbacks, states, rounds = [], [], []
        nid = 100
        for o in range(outer):
            r = 1 + ex.choose(max_rounds, 'rounds')
            rounds.append(r)
            for k in range(r):
                n = ex.choose(3, 'body output size')
                fb = [hlib.se('Item', Int('u64', nid + j)) for j in range(n)] + [hlib.se('FlushAndRestart')]
                nid += 10
                feedbacks.append([[e] for e in fb])
                states.append(('Continue' if k < r - 1 else 'Finished', ex.fresh_int('u64', 'state_%d_%d' % (o, k))))
        if ex.env.get('native'):
            return _native_loop(ex, 'pipe_iterate', script, rounds, outer)
        feedbacks_copy = [[list(b) for b in f] for f in feedbacks]
        env = IterEnv(w, inputs, feedbacks, states)
        lock = hlib.mk_struct(w, 'IterationStateLock', generation=MutexModel(Int('usize', 0)), cond_var=Opaque('Condvar'))
        lock_holder = [lock]
        handle = StateHandleStub(lock_holder)
        sh = hlib.mk_struct(w, 'IterationStateHandler', coord=hlib.coord(w, 2, 0, 0), new_state_receiver=some(IterRx(env, 'state')),
                            leader_block_id=Int('u64', 4), is_local_leader=True, num_local_replicas=Int('usize', 1),
                            state_ref=handle, state_barrier=ArcModel(MutexModel(None)), state_lock=ArcModel(slot=lock_holder))
        outp = SenderStub('output')
        it = hlib.mk_struct(w, 'Iterate', coord=hlib.coord(w, 2, 0, 0), state=sh, input_receiver=some(IterRx(env, 'input')),
                            feedback_receiver=some(IterRx(env, 'feedback')), feedback_end_block_id=ArcModel(MutexModel(Int('usize', 7))),
                            input_block_id=Int('u64', 1), output_sender=some(outp), output_block_id=ArcModel(MutexModel(Int('usize', 8))),
                            content=DequeModel([]), input_stash=DequeModel([]), feedback_content=DequeModel([]),
                            input_finished=False)
        holder = [it]
        out = []
        for _ in range(40 * (max_rounds + 1) * outer + 40):
            el = ex.call_function(nxt, [Ref(holder, 0)])
            out.append(el)
            if el.variant == 'FlushAndRestart':
                env.emitted_rounds += 1
            if el.variant == 'Terminate':
                break
        else:
            raise Violation('Iterate does not terminate', hlib._wit(ex))
        sx = lambda: {'input': [repr(e) for e in script], 'rounds': rounds,
                      'feedback': [[repr(e) for b in f for e in b] for f in feedbacks_copy],
                      'output': [repr(e) for e in out],
                      'emitted_downstream': [[repr(e) for e in b] for _, b in outp.sent]}
        ins = hlib.split_iterations(script)
        want, want_out = [], []
        ri = 0
        for o in range(outer):
            want += ins[o] + [hlib.se('FlushAndRestart')]
            for k in range(rounds[o]):
                fb = [e for b in feedbacks_copy[ri] for e in b]
                if k < rounds[o] - 1:
                    want += fb
                else:
                    want_out.append(fb)
                ri += 1
        want.append(hlib.se('Terminate'))
        ids = lambda seq: [(e.variant, e.fields[0].v if e.variant == 'Item' else None) for e in seq]
        if ids(out) != ids(want):
            raise Violation('Iterate feeds the loop body %s, expected the input in round 1 and the output of round k in round '
                            'k+1: %s' % (ids(out), ids(want)), hlib._wit(ex), sx())
        sent = [b for _, b in outp.sent]
        got_out = [b for b in sent if not (len(b) == 1 and b[0].variant == 'Terminate')]
        if [ids(b) for b in got_out] != [ids(b) for b in want_out]:
            raise Violation('Iterate emits %s downstream, expected the elements of the last round of each loop: %s' %
                            ([ids(b) for b in got_out], [ids(b) for b in want_out]), hlib._wit(ex), sx())
        if not sent or [e.variant for e in sent[-1]] != ['Terminate']:
            raise Violation('Iterate did not forward Terminate to its output block', hlib._wit(ex), sx())
        if len(handle.sets) != len(states):
            raise Violation('%d state updates published for %d rounds' % (len(handle.sets), len(states)), hlib._wit(ex), sx())
        for (st, g), (_, want_st) in zip(handle.sets, states):
            check(ex, st.z() == want_st.z(), 'state published to the loop body is not the one received from the leader', sx)
            if ex.concretize(g) % 2 != 1:
                raise Violation('state published while the state lock is not held', hlib._wit(ex), sx())
        if any(r > 1 for r in rounds):
            hlib.cover(ex, 'several_rounds')
        return sx()

    return h


_replay_tasks = TASKS


def TASKS(tier):     # noqa: F811
    ts = _replay_tasks(tier)
    for ml, mr, outer in ([(2, 2, 1), (1, 1, 2)] if tier == 'quick' else [(2, 3, 1), (1, 1, 2)]):
        ts.append(Task('iterate_l%d_r%d_o%d' % (ml, mr, outer), 'iterate_harness', {'max_len': ml, 'max_rounds': mr, 'outer': outer},
                       bounds='Iterate::next with the real IterationStateHandler: %d outer iteration(s) x <=%d input items, 1..%d '
                              'rounds, body output of 0..2 items per round, every interleaving of input / feedback / state '
                              'messages that respects causality, try_recv seeing or missing pending feedback' % (outer, ml, mr),
                       role='iterate', opts={'covers': ['several_rounds'] if mr > 1 else []}, budget=300))
    return ts
