"""Harness for two-input blocks: Start<BinaryStartReceiver> with real SideReceiver / SimpleStartReceiver
code over stub network receivers; used for C09 (zip, merge), C08 (joins) and C11 (cached side inputs)."""
import z3
from lib.runner import Task
from mirsym.values import Int, Agg, Enum, Ref, Opaque, deep_copy, unit
from mirsym.executor import PyObj, Unsupported
from mirsym.explore import check, Violation
from mirsym.models import zbool, some, none, ok, err, deref
from mirsym.models_coll import VecModel
from mirsym import hlib
from props.start import cut_batches, exec_metadata


class Net:
    """both sides of the network of a binary block: arrival choices and the consumption log"""

    def __init__(self, w, sides, max_timeouts=0):
        self.w = w
        self.sides = sides            # {block_id: (coords, [batches per sender])}
        self.log = []                 # ('batch', block_id, sender idx, [elements]) | ('timeout',)
        self.ended = {b: [0] * len(s[0]) for b, s in sides.items()}
        self.max_timeouts = max_timeouts
        self.adaptive = False
        self.forced = 0               # pauses met while the block waited without a timeout on unflushed output

    def avail(self, bid):
        coords, batches = self.sides[bid]
        low = min(self.ended[bid]) if self.ended[bid] else 0
        return [(bid, i) for i, b in enumerate(batches) if b and (self.ended[bid][i] <= low or
                                                                  all(e.variant == 'Terminate' for e in b[0]))]

    def take(self, ex, bid, i):
        coords, batches = self.sides[bid]
        batch = batches[i].pop(0)
        self.ended[bid][i] += sum(1 for e in batch if e.variant == 'FlushAndRestart')
        self.log.append(('batch', bid, i, batch))
        new_batch = self.w.impls[(None, 'NetworkMessage')]['new_batch'][0]
        return ex.call_function(new_batch, [VecModel([deep_copy(e) for e in batch]), deep_copy(coords[i])])


class NetRx(PyObj):
    """stands for NetworkReceiver<T> of one previous block"""
    name = 'NetworkReceiver'

    def __init__(self, net, bid):
        self.net = net
        self.bid = bid

    def _pick(self, ex, cands, allow_timeout):
        if not allow_timeout and self.net.adaptive and self.net.forced == 0 and hlib.unflushed(ex):
            # C18: adaptive batching, elements went downstream since the last FlushBatch / FlushAndRestart and the
            # block now waits WITHOUT a timeout.  The environment is free to stay silent here (pause >= 3 x
            # max_delay before the next batch): a correct block turns that pause into a FlushBatch, this one cannot.
            # Recorded like a timeout, so the oracle expects a FlushBatch and the native replay really pauses.
            self.net.forced += 1
            self.net.log.append(('timeout',))
        n = len(cands) + (1 if allow_timeout and self.net.max_timeouts > 0 else 0)
        if n == 0:
            raise Violation('the block waits on a channel on which nothing can arrive any more (deadlock)')
        k = ex.choose(n, 'arrival') if n > 1 else 0
        if k >= len(cands):
            self.net.max_timeouts -= 1
            self.net.log.append(('timeout',))
            return None
        return cands[k]

    def trait_call(self, ex, trait, method, args):
        net = self.net
        timeout_err = err(Enum('channel::RecvTimeoutError', 'Timeout', 0, []))
        if method == 'recv':
            c = self._pick(ex, net.avail(self.bid), False)
            return ok(net.take(ex, *c))
        if method == 'recv_timeout':
            c = self._pick(ex, net.avail(self.bid), True)
            return timeout_err if c is None else ok(net.take(ex, *c))
        if method in ('select', 'select_timeout'):
            other = deref(args[1])
            c = self._pick(ex, net.avail(self.bid) + net.avail(other.bid), method == 'select_timeout')
            if c is None:
                return timeout_err
            msg = net.take(ex, *c)
            r = Enum('channel::SelectResult', 'A' if c[0] == self.bid else 'B', 0 if c[0] == self.bid else 1, [ok(msg)])
            return ok(r) if method == 'select_timeout' else r
        if trait == 'Clone':
            return self
        raise Unsupported('NetRx %s::%s' % (trait, method))


class Topology(PyObj):
    name = 'NetworkTopology'

    def __init__(self, rxs):
        self.rxs = rxs
        self.used = set()

    def trait_call(self, ex, trait, method, args):
        if method == 'get_receiver':
            ep = args[1]
            bid = ep.get('prev_block_id').v
            if bid in self.used:
                from mirsym.executor import RustPanic
                raise RustPanic('The receiver has already been got')
            self.used.add(bid)
            return self.rxs[bid]
        raise Unsupported('Topology %s::%s' % (trait, method))


def binary_setup(ex, w, op_holder, setup_fn, nl, nr, scripts_l, scripts_r, cut, max_timeouts=0, adaptive=False):
    """wire a binary block: previous blocks 1 (left, nl replicas) and 2 (right, nr replicas)"""
    cl = [hlib.coord(w, 1, 0, i) for i in range(nl)]
    cr = [hlib.coord(w, 2, 0, i) for i in range(nr)]
    net = Net(w, {1: (cl, [cut_batches(ex, s, cut) for s in scripts_l]),
                  2: (cr, [cut_batches(ex, s, cut) for s in scripts_r])}, max_timeouts if adaptive else 0)
    topo = Topology({1: NetRx(net, 1), 2: NetRx(net, 2)})
    net.adaptive = bool(adaptive)
    md = exec_metadata(w, hlib.coord(w, 3, 0, 0), adaptive)
    md.set('network', Ref([topo], 0))
    tid = Opaque('TypeId')
    md.set('prev', VecModel([Agg('tuple', None, [deep_copy(c), tid]) for c in cl + cr]))
    ex.call_function(setup_fn, [Ref(op_holder, 0), Ref([md], 0)])
    return net


BE = {'Left': 0, 'Right': 1, 'LeftEnd': 2, 'RightEnd': 3}


def side_payload(side):
    return lambda ex, k: Int('u64', side * 100 + k)


def gen_side(ex, n, iters, max_len, kinds, side, name, ts_span=None, payload=None):
    return [hlib.gen_script(ex, iters, max_len, kinds, name='%s%d' % (name, s),
                            payload=payload or (lambda ex, k, s=s: Int('u64', side * 1000 + s * 100 + k)),
                            ts_span=ts_span) for s in range(n)]


# ------------------------------------------------------------------------------------ Zip (C09)

def zip_harness(w, nl, nr, iters, max_len, timed=False, cut='each', wm=False):
    znew = w.impls[(None, 'Zip')]['new'][0]
    setup = w.impls[('Operator', 'Zip')]['setup'][0]
    nxt = w.impls[('Operator', 'Zip')]['next'][0]
    hlib.check_se_table(w)

    def h(ex):
        kinds = ('TW' if wm else 'T') if timed else 'I'
        sl = gen_side(ex, nl, iters, max_len, kinds, 1, 'l', (1000, 5) if timed else None)
        sr = gen_side(ex, nr, iters, max_len, kinds, 2, 'r', (1000, 5) if timed else None)
        z = ex.call_function(znew, [Int('u64', 1), Int('u64', 2), False, False, none()])
        holder = [z]
        net = binary_setup(ex, w, holder, setup, nl, nr, sl, sr, cut)
        total = sum(len(s) for s in sl + sr)
        out = hlib.drive(ex, nxt, holder, 2 * total + 8)
        if ex.env.get('native'):
            # the model run fixed the arrival order; the real Zip gets the same batches in the same order
            bl = [ev for ev in net.log if ev[0] == 'batch']
            args = [nl, nr, len(bl)]
            for _, bid, s, batch in bl:
                args += [bid, s, len(batch)] + hlib.encode_script(ex, batch, False)
            import os
            os.environ['VERIF_REPLAY_ZIP_GAP_MS'] = '40'
            runner, prof = ex.env['native']
            ex.env['native_used'] = True
            txt = runner('zip', args)[prof]
            ex.env['native_out'] = txt
            if txt == 'PANIC':
                from mirsym.executor import RustPanic
                raise RustPanic('the real Zip panicked on this input')
            toks = txt.split()
            if toks and toks[-1] in ('TIMEOUT', 'OVERRUN'):
                raise Violation('the real Zip does not terminate on this input (%s)' % toks[-1], hlib._wit(ex))
            out = [hlib.parse_token(t) for t in toks]
            ex.env['last_output'] = out
        sx = lambda: {'left': [[repr(e) for e in s] for s in sl], 'right': [[repr(e) for e in s] for s in sr],
                      'arrival': [(ev[1], ev[2], len(ev[3])) for ev in net.log if ev[0] == 'batch'],
                      'output': [repr(e) for e in out]}
        hlib.check_grammar(ex, out, iters, 'Zip output')
        if wm:
            hlib.check_wm_contract(ex, out, 'Zip output')          # C06
            if any(e.variant == 'Watermark' for e in out):
                hlib.cover(ex, 'watermark')
        # consumption order per side and iteration
        order = {1: [[] for _ in range(iters)], 2: [[] for _ in range(iters)]}
        itn = {1: [0] * nl, 2: [0] * nr}
        for ev in net.log:
            if ev[0] != 'batch':
                continue
            _, bid, s, batch = ev
            for e in batch:
                if e.variant in ('Item', 'Timestamped'):
                    order[bid][itn[bid][s]].append(e)
                elif e.variant == 'FlushAndRestart':
                    itn[bid][s] += 1
        outs = hlib.split_iterations(out)
        for k in range(iters):
            a, b = order[1][k], order[2][k]
            pairs = [e for e in outs[k] if e.variant in ('Item', 'Timestamped')]
            n = min(len(a), len(b))
            if len(pairs) != n:
                raise Violation('zip produced %d pairs from %d and %d elements' % (len(pairs), len(a), len(b)),
                                hlib._wit(ex), sx())
            if n:
                hlib.cover(ex, 'paired')
            used_l, used_r = set(), set()
            for i, p in enumerate(pairs):
                x, y = p.fields[0].fields
                if x.v in used_l or y.v in used_r:
                    raise Violation('zip used an element twice', hlib._wit(ex), sx())
                used_l.add(x.v)
                used_r.add(y.v)
                # positional pairing in arrival order of each side
                if x.v != a[i].fields[0].v or y.v != b[i].fields[0].v:
                    raise Violation('zip does not pair the i-th element of one side with the i-th of the other',
                                    hlib._wit(ex), sx())
                if timed:
                    check(ex, p.fields[1].v == hlib.bv_max([a[i].fields[1].v, b[i].fields[1].v]),
                          'zip pair timestamp is not the max of the two', sx)
        return sx()
    return h


def zip_wm_tasks(tier, role):
    cfgs = [dict(nl=1, nr=1, iters=1, max_len=2, timed=True, wm=True)]
    if tier != 'quick':
        cfgs += [dict(nl=1, nr=1, iters=2, max_len=[3, 1], timed=True, wm=True), dict(nl=2, nr=1, iters=1, max_len=2, timed=True, wm=True)]
    return [Task('zip_wm_%dx%d_i%d' % (c['nl'], c['nr'], c['iters']), 'zip_harness', c,
                 bounds='Zip over Start<BinaryStartReceiver>: %d left and %d right upstream replicas, %d iterations x <=%s '
                        'elements each Timestamped or Watermark (contract respected per replica, timestamps symbolic in a window '
                        'of 5), one element per batch, every arrival interleaving' % (c['nl'], c['nr'], c['iters'], c['max_len']),
                 role=role, opts={'covers': ['paired', 'watermark']}, budget=300) for c in cfgs]


def zip_tasks(tier, role):
    cfgs = [dict(nl=1, nr=1, iters=2, max_len=[2, 1], timed=False),
            dict(nl=2, nr=1, iters=1, max_len=[1], timed=False),
            dict(nl=1, nr=1, iters=1, max_len=2, timed=True)]
    if tier != 'quick':
        cfgs += [dict(nl=2, nr=2, iters=1, max_len=[1], timed=False),
                 dict(nl=2, nr=1, iters=1, max_len=[2], timed=False),
                 dict(nl=1, nr=1, iters=2, max_len=[3, 2], timed=True)]
    ts = []
    for c in cfgs:
        ml = c['max_len'] if isinstance(c['max_len'], list) else [c['max_len']]
        nm = 'zip_%dx%d_i%d_l%s_%s' % (c['nl'], c['nr'], c['iters'], '-'.join(map(str, ml)), 'ts' if c['timed'] else 'items')
        ts.append(Task(nm, 'zip_harness', c,
                       bounds='Zip over Start<BinaryStartReceiver>: %d left and %d right upstream replicas, %d iterations x '
                              '<=%s elements each, one element per batch, every arrival interleaving of the two sides' %
                              (c['nl'], c['nr'], c['iters'], c['max_len']), role=role,
                       opts={'covers': ['paired']}, budget=300))
    return ts


# ------------------------------------------------------------------------------------ cached side input (C11)

def native_binstart(ex, net, nl, nr, lc, rc, keep_flush=False):
    """the real Start<BinaryStartReceiver> fed with the batches of the model run, in the same order"""
    import os
    from mirsym.executor import RustPanic
    args = [nl, nr, int(lc), int(rc), len(net.log)]
    adaptive = False
    for ev in net.log:
        if ev[0] == 'timeout':
            adaptive = True
            args += [0, 300, 0]            # the producers pause for 3 x max_delay: the real receive times out
        else:
            _, bid, s, batch = ev
            args += [bid, s, len(batch)] + hlib.encode_script(ex, batch, False)
    os.environ['VERIF_REPLAY_ZIP_GAP_MS'] = '40'
    if adaptive:
        os.environ['VERIF_REPLAY_BINSTART_ADAPTIVE'] = '1'
    else:
        os.environ.pop('VERIF_REPLAY_BINSTART_ADAPTIVE', None)
    runner, prof = ex.env['native']
    ex.env['native_used'] = True
    txt = runner('binstart', args, timeout=120)[prof]
    ex.env['native_out'] = txt
    if txt == 'PANIC':
        raise RustPanic('the real binary Start panicked on this input')
    out = []
    for tok in txt.split():
        if tok in ('TIMEOUT', 'OVERRUN'):
            raise Violation('the real binary Start does not terminate on this input (%s)' % tok, hlib._wit(ex))
        if tok == 'B' and not keep_flush:
            continue
        if tok in ('LE', 'RE'):
            out.append(hlib.se('Item', Enum('BinaryElement', 'LeftEnd' if tok == 'LE' else 'RightEnd', BE['LeftEnd' if tok == 'LE' else 'RightEnd'], [])))
        elif tok[0] in 'LR' and tok[1] == '(':
            side = 'Left' if tok[0] == 'L' else 'Right'
            out.append(hlib.se('Item', Enum('BinaryElement', side, BE[side], [Int('u64', int(tok[2:-1]))])))
        else:
            out.append(hlib.parse_token(tok))
    ex.env['last_output'] = out
    return out


def cache_harness(w, nl, nr, rounds, max_len, cached='right', cut='each', timeouts=0):
    """binary Start inside a loop body: the `cached` side comes from outside the loop (delivered once), the other
    side is the loop's stream (`rounds` iterations)"""
    multiple = w.impls[(None, 'Start')]['multiple'][0]
    setup = w.impls[('Operator', 'Start')]['setup'][0]
    nxt = w.impls[('Operator', 'Start')]['next'][0]
    hlib.check_se_table(w)

    def h(ex):
        loop_side, out_side = (1, 2) if cached == 'right' else (2, 1)
        n_loop, n_out = (nl, nr) if cached == 'right' else (nr, nl)
        s_loop = gen_side(ex, n_loop, rounds, max_len, 'I', loop_side, 'loop')
        s_out = gen_side(ex, n_out, 1, max_len, 'I', out_side, 'side')
        sl, sr = (s_loop, s_out) if cached == 'right' else (s_out, s_loop)
        st = ex.call_function(multiple, [Int('u64', 1), Int('u64', 2), cached == 'left', cached == 'right', none()])
        holder = [st]
        net = binary_setup(ex, w, holder, setup, nl, nr, sl, sr, cut, max_timeouts=timeouts, adaptive=timeouts > 0)
        total = sum(len(s) for s in sl + sr)
        out = hlib.drive(ex, nxt, holder, (rounds + 1) * total + 8 + 2 * timeouts)
        out = [e for e in out if e.variant != 'FlushBatch']
        if ex.env.get('native'):
            out = native_binstart(ex, net, nl, nr, cached == 'left', cached == 'right')
        sx = lambda: {'cached': cached, 'left': [[repr(e) for e in s] for s in sl],
                      'right': [[repr(e) for e in s] for s in sr],
                      'arrival': [(ev[1], ev[2], len(ev[3])) for ev in net.log if ev[0] == 'batch'],
                      'output': [repr(e) for e in out]}
        hlib.check_grammar(ex, out, rounds, 'binary Start output')
        outs = hlib.split_iterations(out)
        side_ids = sorted(e.fields[0].v for s in s_out for e in s if e.variant == 'Item')
        lv, rv = ('Left', 'Right')
        loop_var, side_var = (lv, rv) if cached == 'right' else (rv, lv)
        for k in range(rounds):
            its = outs[k]
            got_loop = [e.fields[0].fields[0].v for e in its if e.variant == 'Item' and e.fields[0].variant == loop_var]
            got_side = [e.fields[0].fields[0].v for e in its if e.variant == 'Item' and e.fields[0].variant == side_var]
            want_loop = sorted(e.fields[0].v for s in s_loop for e in hlib.split_iterations(s)[k] if e.variant == 'Item')
            if sorted(got_loop) != want_loop:
                raise Violation('round %d: the loop side is not delivered exactly once' % k, hlib._wit(ex), sx())
            if sorted(got_side) != side_ids:
                raise Violation('round %d does not see the outside (cached) input completely and exactly once '
                                '(got %s, expected %s)' % (k, sorted(got_side), side_ids), hlib._wit(ex), sx())
            # per-producer order inside the side input is the same in every round
            for s in s_out:
                ids = [e.fields[0].v for e in s if e.variant == 'Item']
                if [x for x in got_side if x in ids] != ids:
                    raise Violation('round %d sees the cached input of a producer in a different order' % k,
                                    hlib._wit(ex), sx())
            # the end-of-side marker tells the operators that the side is complete: it follows every element of it
            seen_end = set()
            for e in its:
                if e.variant != 'Item':
                    continue
                v = e.fields[0].variant
                if v in ('LeftEnd', 'RightEnd'):
                    seen_end.add(v[:-3])
                elif v in seen_end:
                    raise Violation('round %d: an element of the %s input is presented after its %sEnd marker (the side '
                                    'is declared complete before all of it was delivered)' % (k, v.lower(), v),
                                    hlib._wit(ex), sx())
            ends = [e.fields[0].variant for e in its if e.variant == 'Item' and e.fields[0].variant in ('LeftEnd', 'RightEnd')]
            if sorted(ends) != ['LeftEnd', 'RightEnd']:
                raise Violation('round %d: end-of-side markers %s (one LeftEnd and one RightEnd expected)' % (k, ends),
                                hlib._wit(ex), sx())
            if k >= 1 and side_ids:
                hlib.cover(ex, 'replayed')
        return sx()
    return h


def cache_tasks(tier, role):
    cfgs = [dict(nl=1, nr=1, rounds=3, max_len=[1, 1, 1], cached='right'),
            dict(nl=1, nr=2, rounds=2, max_len=[1, 1], cached='right'),
            dict(nl=2, nr=1, rounds=2, max_len=[1, 0], cached='right'),
            dict(nl=1, nr=1, rounds=2, max_len=[1, 1], cached='right', timeouts=1),
            dict(nl=1, nr=1, rounds=2, max_len=[2, 1], cached='left'),
            dict(nl=1, nr=2, rounds=2, max_len=[1, 0], cached='left')]
    if tier != 'quick':
        cfgs += [dict(nl=2, nr=1, rounds=2, max_len=[1, 1], cached='right'),
                 dict(nl=1, nr=2, rounds=3, max_len=[1, 1, 0], cached='left'),
                 dict(nl=1, nr=1, rounds=3, max_len=[2, 2, 1], cached='left')]
    ts = []
    for c in cfgs:
        nm = 'cache_%s_%dx%d_r%d_l%s%s' % (c['cached'], c['nl'], c['nr'], c['rounds'], '-'.join(map(str, c['max_len'])),
                                         '_timeouts' if c.get('timeouts') else '')
        ts.append(Task(nm, 'cache_harness', c,
                       bounds='Start<BinaryStartReceiver> with the %s side cached: %d left / %d right producers, %d rounds '
                              'of the loop side x <=%s items, outside side delivered once (<=%s items per producer), one '
                              'element per batch, every arrival interleaving' %
                              (c['cached'], c['nl'], c['nr'], c['rounds'], c['max_len'], c['max_len'][0]), role=role,
                       opts={'covers': ['replayed']}, budget=300))
    return ts


# ------------------------------------------------------------------------------------ idle flush of a two-input block (C18)

def binstart_flush_harness(w, nl, nr, iters, max_len, timeouts, cached=None):
    """Start<BinaryStartReceiver> with adaptive batching: every pause of the producers (receive timeout) is turned
    into exactly one FlushBatch, whichever side is still running, and the block never waits without a timeout while
    elements it handed downstream have not been followed by a FlushBatch / FlushAndRestart"""
    multiple = w.impls[(None, 'Start')]['multiple'][0]
    setup = w.impls[('Operator', 'Start')]['setup'][0]
    nxt = w.impls[('Operator', 'Start')]['next'][0]
    hlib.check_se_table(w)

    def h(ex):
        sl = gen_side(ex, nl, iters, max_len, 'I', 1, 'l')
        sr = gen_side(ex, nr, iters, max_len, 'I', 2, 'r')
        st = ex.call_function(multiple, [Int('u64', 1), Int('u64', 2), False, False, none()])
        holder = [st]
        net = binary_setup(ex, w, holder, setup, nl, nr, sl, sr, 'each', max_timeouts=timeouts, adaptive=True)
        total = sum(len(s) for s in sl + sr)
        out = hlib.drive(ex, nxt, holder, 2 * total + 12 + 2 * timeouts)
        if ex.env.get('native'):
            out = native_binstart(ex, net, nl, nr, False, False, keep_flush=True)
        sx = lambda: {'left': [[repr(e) for e in s] for s in sl], 'right': [[repr(e) for e in s] for s in sr],
                      'arrival': [('timeout',) if ev[0] == 'timeout' else (ev[1], ev[2], len(ev[3])) for ev in net.log],
                      'output': [repr(e) for e in out], 'blocking_waits_on_unflushed_output': net.forced}
        hlib.check_grammar(ex, out, iters, 'binary Start output')
        n_flush = sum(1 for e in out if e.variant == 'FlushBatch')
        n_pause = sum(1 for ev in net.log if ev[0] == 'timeout')
        if n_flush != n_pause:
            raise Violation('two-input block with adaptive batching: %d pause(s) of the producers but %d FlushBatch: '
                            '%s' % (n_pause, n_flush, 'the block waits without a timeout although elements it passed '
                                    'downstream have not been flushed (they stay in the batchers for as long as no input arrives)'
                                    if n_flush < n_pause else 'spurious FlushBatch'), hlib._wit(ex), sx())
        # a FlushBatch sits exactly where the pause happened: between the elements of the batches around it
        pos, want = 0, []
        for ev in net.log:
            if ev[0] == 'timeout':
                want.append('B')
            else:
                want += ['D'] * sum(1 for e in ev[3] if e.variant == 'Item')
        got = ['B' if e.variant == 'FlushBatch' else 'D' for e in out
               if e.variant == 'FlushBatch' or (e.variant == 'Item' and e.fields[0].variant in ('Left', 'Right'))]
        if got != want:
            raise Violation('FlushBatch is not emitted at the point of the pause (got %s, expected %s)' %
                            (''.join(got), ''.join(want)), hlib._wit(ex), sx())
        if n_pause:
            hlib.cover(ex, 'timeout')
        ended = [ev for ev in net.log]
        return sx()
    return h


def binstart_flush_tasks(tier, role):
    cfgs = [dict(nl=1, nr=1, iters=1, max_len=[2], timeouts=1), dict(nl=1, nr=1, iters=2, max_len=[1, 1], timeouts=1)]
    if tier != 'quick':
        cfgs += [dict(nl=1, nr=1, iters=2, max_len=[2, 1], timeouts=2), dict(nl=2, nr=1, iters=1, max_len=[1], timeouts=1)]
    return [Task('binstart_flush_%dx%d_i%d_l%s_t%d' % (c['nl'], c['nr'], c['iters'], '-'.join(map(str, c['max_len'])), c['timeouts']),
                 'binstart_flush_harness', c,
                 bounds='Start<BinaryStartReceiver>, adaptive batching: %d + %d producers, %d iteration(s) x <=%s items per '
                        'producer, one element per batch, every arrival interleaving, <=%d receive timeouts at any point; a '
                        'wait without timeout on unflushed output counts as a pause' %
                        (c['nl'], c['nr'], c['iters'], c['max_len'], c['timeouts']),
                 role=role, opts={'covers': ['timeout']}, budget=300) for c in cfgs]


# ------------------------------------------------------------------------------------ merge (C09)

def merge_harness(w, nl, nr, iters, max_len, cut='each'):
    """Stream::merge = binary Start (no cache) + the real filter_map closure of merge()"""
    multiple = w.impls[(None, 'Start')]['multiple'][0]
    fm_new = w.impls[(None, 'FilterMap')]['new'][0]
    setup = w.impls[('Operator', 'FilterMap')]['setup'][0]
    nxt = w.impls[('Operator', 'FilterMap')]['next'][0]
    clo = [f for f in w.prog.functions if f.name.endswith('::merge::{closure#0}') and 'merge.rs' in f.name]
    if len(clo) != 1:
        raise Unsupported('merge closure not found')
    import re
    cname = re.search(r'_1: (?:&mut |&)?(\{closure@[^}]*\})', clo[0].header).group(1)
    hlib.check_se_table(w)

    def h(ex):
        sl = gen_side(ex, nl, iters, max_len, 'I', 1, 'l')
        sr = gen_side(ex, nr, iters, max_len, 'I', 2, 'r')
        st = ex.call_function(multiple, [Int('u64', 1), Int('u64', 2), False, False, none()])
        op = ex.call_function(fm_new, [st, Agg('closure', cname, [], [])])
        holder = [op]
        net = binary_setup(ex, w, holder, setup, nl, nr, sl, sr, cut)
        total = sum(len(s) for s in sl + sr)
        out = hlib.drive(ex, nxt, holder, 2 * total + 8)
        if ex.env.get('native'):
            # the real binary Start on the same batches in the same arrival order; the (one-line) closure of
            # Stream::merge -- Left(x) | Right(x) => Some(x), end markers => None -- is applied here
            out = []
            for e in native_binstart(ex, net, nl, nr, False, False):
                if e.variant == 'Item' and isinstance(e.fields[0], Enum) and e.fields[0].name == 'BinaryElement':
                    if e.fields[0].variant in ('Left', 'Right'):
                        out.append(hlib.se('Item', e.fields[0].fields[0]))
                else:
                    out.append(e)
        out = [e for e in out if e.variant != 'FlushBatch']
        ex.env['last_output'] = out
        sx = lambda: {'left': [[repr(e) for e in s] for s in sl], 'right': [[repr(e) for e in s] for s in sr],
                      'output': [repr(e) for e in out]}
        hlib.check_grammar(ex, out, iters, 'merge output')
        outs = hlib.split_iterations(out)
        for k in range(iters):
            got = []
            for e in outs[k]:
                if e.variant != 'Item' or not isinstance(e.fields[0], Int):
                    raise Violation('merge leaked a non-data element (%r)' % (e,), hlib._wit(ex), sx())
                got.append(e.fields[0].v)
            want = sorted(e.fields[0].v for s in sl + sr for e in hlib.split_iterations(s)[k] if e.variant == 'Item')
            if sorted(got) != want:
                raise Violation('merge output is not the multiset union of its inputs', hlib._wit(ex), sx())
            for s in sl + sr:
                ids = [e.fields[0].v for e in hlib.split_iterations(s)[k] if e.variant == 'Item']
                if [x for x in got if x in ids] != ids:
                    raise Violation('merge reordered the elements of one producer', hlib._wit(ex), sx())
            if len(got) > 1:
                hlib.cover(ex, 'merged')
        return sx()
    return h


def merge_tasks(tier, role):
    cfgs = [dict(nl=1, nr=1, iters=2, max_len=[2, 1]), dict(nl=2, nr=1, iters=1, max_len=[1])]
    if tier != 'quick':
        cfgs += [dict(nl=1, nr=1, iters=2, max_len=[3, 2]), dict(nl=2, nr=2, iters=1, max_len=[1])]
    return [Task('merge_%dx%d_i%d_l%s' % (c['nl'], c['nr'], c['iters'], '-'.join(map(str, c['max_len']))), 'merge_harness', c,
                 bounds='merge = Start<BinaryStartReceiver> + the filter_map closure of Stream::merge: %d + %d producers, %d '
                        'iteration(s) x <=%s items, every arrival interleaving' % (c['nl'], c['nr'], c['iters'], c['max_len']),
                 role=role, opts={'covers': ['merged']}, budget=300) for c in cfgs]
