"""Harness for `End` (block output) + `Batcher`: routing per connection kind, batching, flushing.
Serves C02 (batching keeps the sequence), C03 (routing), C09 (split / broadcast), C16, C18."""
import z3
from lib.runner import Task
from mirsym.values import Int, Agg, Enum, Ref, Opaque, deep_copy, unit, mk_int
from mirsym.executor import PyObj, Unsupported
from mirsym.explore import check, Violation
from mirsym.models import zbool, some, none, ok, err, deref
from mirsym.models_coll import VecModel
from mirsym.models_env import hash_fn
from mirsym import hlib


class SenderStub(PyObj):
    """stands for NetworkSender<Out>: records every NetworkMessage handed to `send`"""
    name = 'NetworkSender'

    def __init__(self, tag):
        self.tag = tag
        self.sent = []         # list of (sender coord value, [elements])

    def trait_call(self, ex, trait, method, args):
        if method == 'send':
            msg = args[1]
            data = msg.get('data')
            self.sent.append((msg.get('sender'), list(data.fields[0].items)))
            return ok(unit())
        if trait == 'Clone':
            return self
        raise Unsupported('SenderStub %s::%s' % (trait, method))

    def flat(self):
        return [e for _, b in self.sent for e in b]


class KeyOf(PyObj):
    """keyer: |item: &(K, V)| item.0"""
    name = 'VerifKeyer'

    def trait_call(self, ex, trait, method, args):
        if trait in ('Fn', 'FnMut', 'FnOnce'):
            item = deref(args[1].fields[0])
            return deep_copy(item.fields[0])
        if trait == 'Clone':
            return self
        raise Unsupported('KeyOf %s::%s' % (trait, method))


def batch_mode(w, ex, kind, n):
    v = dict(w.src.enum_variants('BatchMode'))
    if kind == 'single':
        return Enum('BatchMode', 'Single', v['Single'], [])
    if kind == 'fixed':
        return Enum('BatchMode', 'Fixed', v['Fixed'], [Int('usize', n)])
    d = ex.fresh_int('u64', 'max_delay')
    ex.assume(z3.ULT(d.v, z3.BitVecVal(1 << 40, 64)))
    return Enum('BatchMode', 'Adaptive', v['Adaptive'], [Int('usize', n), d])


def end_harness(w, blocks, strategy, mode, bsize, iters, max_len, order='rev', feedback=None):
    """blocks: list of replica counts of the downstream blocks (block ids 10, 11, ..)"""
    end_new = w.impls[(None, 'End')]['new'][0]
    setup_senders = w.impls[(None, 'End')]['setup_senders'][0]
    nxt = w.impls[('Operator', 'End')]['next'][0]
    bnew = w.impls[(None, 'Batcher')]['new'][0]
    hlib.check_se_table(w)
    ns = dict(w.src.enum_variants('NextStrategy'))

    def h(ex):
        own = hlib.coord(w, 1, 0, 0)
        keyed = strategy == 'GroupBy'
        script = hlib.gen_script(ex, iters, max_len, 'ITW', ts_span=(1000, 6),
                                 payload=(lambda ex, k: Agg('tuple', None, [ex.fresh_int('u64', 'key%d' % k),
                                                                           Int('u64', k)])) if keyed else
                                 (lambda ex, k: Int('u64', k)))
        if strategy == 'GroupBy':
            gb = w.impls[(None, 'NextStrategy')]['group_by'][0]
            strat = ex.call_function(gb, [KeyOf()])
        else:
            strat = Enum('NextStrategy', strategy, ns[strategy], [])
        bm = batch_mode(w, ex, mode, bsize)
        end = ex.call_function(end_new, [hlib.Upstream(script), strat, bm])
        # what End::setup does with the senders obtained from the topology (a hash map: arbitrary order)
        stubs, pairs = {}, []
        for b, nrep in enumerate(blocks):
            for r in range(nrep):
                ep = hlib.mk_struct(w, 'ReceiverEndpoint', coord=hlib.coord(w, 10 + b, r // 2, r % 2),
                                    prev_block_id=Int('u64', 1))
                st = SenderStub((10 + b, r))
                stubs[(b, r)] = st
                batcher = ex.call_function(bnew, [st, deep_copy(bm), deep_copy(own)])
                pairs.append(Agg('tuple', None, [ep, batcher]))
        if order == 'rev':
            pairs.reverse()
        elif order == 'any' and len(pairs) > 1:
            perm = []
            rest = list(pairs)
            while rest:
                perm.append(rest.pop(ex.choose(len(rest), 'sender order')))
            pairs = perm
        end.set('senders', VecModel(pairs))
        end.set('coord', some(deep_copy(own)))
        if feedback is not None:
            end.set('feedback_id', some(Int('u64', 10 + feedback)))
        holder = [end]
        ex.call_function(setup_senders, [Ref(holder, 0)])
        native = ex.env.get('native')
        if native:
            _native_end(ex, blocks, strategy, mode, bsize, feedback, script, stubs, keyed)
        # drive
        routed = {k: [] for k in stubs}       # oracle: what each replica must receive, in order
        pos = 0
        sx = lambda: {'blocks': blocks, 'strategy': strategy, 'mode': mode, 'bsize': bsize,
                      'script': [repr(e) for e in script],
                      'sent': {str(k): [[repr(e) for e in b] for _, b in s.sent] for k, s in stubs.items()}}
        for step, el in enumerate(script):
            if not native:
                ret = ex.call_function(nxt, [Ref(holder, 0)])
                if ret.variant != ('Item' if el.variant == 'Timestamped' else el.variant):
                    raise Violation('End::next returned %s for %s' % (ret.variant, el.variant), hlib._wit(ex), sx())
            if el.variant in ('Item', 'Timestamped'):
                # C03: per downstream block exactly one replica (all of them for broadcast)
                for b, nrep in enumerate(blocks):
                    if strategy == 'All':
                        targets = list(range(nrep))
                    elif strategy == 'OnlyOne':
                        targets = [0]
                    else:
                        targets = None
                    got = [r for r in range(nrep) if _buffered_or_sent(ex, holder[0], stubs, (b, r), el, native)]
                    if targets is not None and got != targets:
                        raise Violation('element routed to replicas %s of a downstream block, expected %s' %
                                        (got, targets), hlib._wit(ex), sx())
                    if targets is None:
                        if len(got) != 1:
                            raise Violation('element routed to %d replicas of a downstream block' % len(got),
                                            hlib._wit(ex), sx())
                        if strategy == 'GroupBy':
                            key = el.fields[0].fields[0]
                            if native:
                                kv = hlib.concrete_int(ex, key)
                                hv = z3.BitVecVal(int(native[0]('hash', [kv])[native[1]].split()[0]), 64)
                            else:
                                hv = hash_fn('wyhash', 1)(z3.BitVecVal(0x0123456789abcdef, 64),
                                                           z3.BitVecVal(1, 64), key.z())
                            check(ex, z3.URem(hv, z3.BitVecVal(nrep, 64)) == got[0],
                                  'group-by routing does not depend only on the hash of the key '
                                  '(replica index != hash(key) mod #replicas on the sorted endpoints)', sx)
                            hlib.cover(ex, 'groupby_routed')
                    for r in got:
                        routed[(b, r)].append(el)
            elif el.variant in ('Watermark', 'FlushAndRestart', 'Terminate'):
                for (b, r) in stubs:
                    if el.variant == 'Terminate' and feedback == b:
                        continue
                    routed[(b, r)].append(el)
            # C18 (adaptive): an element handed to the batcher when more than max_delay has elapsed since the
            # last flush must not stay in the buffer
            if mode == 'adaptive' and not native and len(stubs) == 1 and el.variant != 'FlushBatch':
                batcher = holder[0].get('senders').items[0].fields[1] if holder[0].get('senders').items else None
                log = ex.env.get('clock_log', [])
                if batcher is not None and batcher.get('buffer').items and log:
                    hlib.cover(ex, 'adaptive_buffered')
                    check(ex, z3.ULE(log[-1].z() - batcher.get('last_send').z(), bm.fields[1].z()),
                          'adaptive batcher keeps an element buffered although max_delay has elapsed since the last flush',
                          sx)
            # C18: nothing withheld at the end of an iteration / on a flush request / at the end
            if el.variant in ('FlushAndRestart', 'FlushBatch', 'Terminate') and not native:
                for k, s in stubs.items():
                    if len(s.flat()) != len(routed[k]):
                        raise Violation('batcher withholds %d element(s) after %s' %
                                        (len(routed[k]) - len(s.flat()), el.variant), hlib._wit(ex), sx())
                hlib.cover(ex, 'flushed')
        # C02 / C16: per link, the delivered sequence is exactly the routed sequence; batches stamped with coord
        for k, s in stubs.items():
            flat = s.flat()
            if len(flat) != len(routed[k]):
                raise Violation('link delivered %d elements, %d were sent' % (len(flat), len(routed[k])),
                                hlib._wit(ex), sx())
            for a, b_ in zip(flat, routed[k]):
                if a.variant != b_.variant:
                    raise Violation('link reordered or altered elements', hlib._wit(ex), sx())
                if a.variant in ('Item', 'Timestamped'):
                    ida = a.fields[0].fields[1].v if keyed else a.fields[0].v
                    idb = b_.fields[0].fields[1].v if keyed else b_.fields[0].v
                    if ida != idb:
                        raise Violation('link reordered or altered elements', hlib._wit(ex), sx())
                t1, t2 = hlib.ts_of(a), hlib.ts_of(b_)
                if t1 is not None:
                    check(ex, t1.v == t2.v, 'link altered a timestamp', sx)
            for sender, batch in s.sent:
                if not batch:
                    raise Violation('empty batch sent', hlib._wit(ex), sx())
                # End flushes at every FlushAndRestart: the marker is always the last element of its batch
                # (Start relies on it) -- visible in the delivered batches, so also checkable on the real build
                if any(e.variant == 'FlushAndRestart' for e in batch[:-1]):
                    raise Violation('FlushAndRestart is not the last element of its batch: the iteration end '
                                    'was not flushed', hlib._wit(ex), sx())
                if sender is not None and [f.v for f in sender.fields] != [1, 0, 0]:
                    raise Violation('batch not stamped with the sending replica coordinate', hlib._wit(ex), sx())
                if mode in ('fixed', 'adaptive') and len(batch) > bsize:
                    raise Violation('batch larger than the configured size', hlib._wit(ex), sx())
        return sx()
    return h


def _native_end(ex, blocks, strategy, mode, bsize, feedback, script, stubs, keyed):
    """fill the stubs' logs from a run of the real End (replay/net_end.rs)"""
    sid = {'OnlyOne': 0, 'Random': 1, 'GroupBy': 2, 'All': 3}[strategy]
    mid = {'single': 0, 'fixed': 1, 'adaptive': 2}[mode]
    params = [sid, mid, bsize, len(blocks)] + list(blocks) + [-1 if feedback is None else feedback]
    if not keyed:
        # the driver always uses (u64,u64) payloads: key 0
        script = [hlib.se(e.variant, Agg('tuple', None, [Int('u64', 0), e.fields[0]]), *e.fields[1:])
                  if e.variant in ('Item', 'Timestamped') else e for e in script]
    txt = hlib.native_run(ex, 'end', params, script, keyed=True)
    for sec in txt.split(';'):
        sec = sec.strip()
        if not sec:
            continue
        label, rest = sec.split(':', 1)
        b, r = label.strip().split('.')
        st = stubs[(int(b) - 10, int(r))]
        for bt in rest.split(']'):
            bt = bt.strip().lstrip('[').strip()
            if not bt:
                continue
            bad = None
            toks = []
            for t in bt.split():
                if t.startswith('!sender='):
                    bad = t
                else:
                    toks.append(t)
            els = [hlib.parse_token(t) for t in toks]
            if not keyed:
                els = [hlib.se(e.variant, e.fields[0].fields[1], *e.fields[1:])
                       if e.variant in ('Item', 'Timestamped') else e for e in els]
            st.sent.append((None if bad is None else Agg('tuple', None, [Int('u64', 9), Int('u64', 9), Int('u64', 9)]),
                            els))


def _buffered_or_sent(ex, end, stubs, key, el, native=None):
    """does replica `key` hold element `el` (in its batcher buffer or already sent)?"""
    ident = _ident(el)
    st = stubs[key]
    for e in st.flat():
        if _ident(e) == ident:
            return True
    if native:
        return False
    for pair in end.get('senders').items:
        batcher = pair.fields[1]
        if batcher.get('remote_sender') is st:
            for e in batcher.get('buffer').items:
                if _ident(e) == ident:
                    return True
    return False


def _ident(e):
    if e.variant not in ('Item', 'Timestamped'):
        return None
    p = e.fields[0]
    return p.fields[1].v if isinstance(p, Agg) else p.v


def end_tasks(tier, role, what=('routing', 'batching')):
    ts = []
    L = [2, 1] if tier == 'quick' else [3, 1]
    cfgs = []
    if 'routing' in what:
        cfgs += [dict(blocks=[3], strategy='GroupBy', mode='fixed', bsize=2, max_len=[2, 0]),
                 dict(blocks=[2, 4], strategy='GroupBy', mode='single', bsize=1),
                 dict(blocks=[3], strategy='Random', mode='fixed', bsize=2),
                 dict(blocks=[1, 1], strategy='OnlyOne', mode='fixed', bsize=2),
                 dict(blocks=[2, 2], strategy='All', mode='fixed', bsize=3),
                 dict(blocks=[2, 1], strategy='Random', mode='fixed', bsize=2, feedback=1)]
    if 'batching' in what:
        cfgs += [dict(blocks=[1], strategy='OnlyOne', mode='adaptive', bsize=2),
                 dict(blocks=[1], strategy='OnlyOne', mode='fixed', bsize=1),
                 dict(blocks=[1], strategy='OnlyOne', mode='fixed', bsize=3),
                 dict(blocks=[2], strategy='Random', mode='adaptive', bsize=2, max_len=[2, 0])]
    for c in cfgs:
        nm = 'end_%s_%s_%s%d_%s' % ('x'.join(map(str, c['blocks'])), c['strategy'], c['mode'], c['bsize'],
                                   'fb' if c.get('feedback') is not None else '')
        covers = ['flushed'] + (['groupby_routed'] if c['strategy'] == 'GroupBy' else [])
        ts.append(Task(nm.rstrip('_'), 'end_harness', dict(dict(iters=2, max_len=L), **c),
                       bounds='End::setup_senders + End::next with downstream blocks of %s replicas, strategy %s, '
                              'batch mode %s(%d), 2 iterations x <=%s elements (Item/Timestamped/Watermark), keys '
                              'symbolic, hash uninterpreted, clock arbitrary non-decreasing' %
                              (c['blocks'], c['strategy'], c['mode'], c['bsize'], L),
                       role=role, opts={'covers': covers}, budget=300))
    return ts


# ------------------------------------------------------------------------------------ route (C09)

def _native_route(ex, nroutes, data, preds):
    """public-API replay (kind `pipe_route`): the real job stream_iter(items).route()...build(), every route collected;
    batch mode / control elements are not reproduced, only which element reaches which route"""
    from mirsym.executor import RustPanic
    items, want = [], {r: [] for r in range(nroutes)}
    for d in data:
        x = hlib.concrete_int(ex, d)
        mask, first = 0, None
        for r in range(nroutes):
            if ex.branch(preds[r](d.z()), 'oracle: predicate %d' % r):
                mask |= 1 << r
                if first is None:
                    first = r
        items += [x, mask]
        if first is not None:
            want[first].append(x)
    runner, prof = ex.env['native']
    ex.env['native_used'] = True
    txt = runner('pipe_route', [1, nroutes, len(data)] + items)[prof]
    ex.env['native_out'] = txt
    if txt == 'PANIC':
        raise RustPanic('the real route job panicked on this input')
    if txt.startswith(('BADARGS', 'UNKNOWN', 'NORESULT', 'TIMEOUT')):
        raise Unsupported('native driver: ' + txt)
    got = {}
    for part in txt.split('|'):
        name, _, vals = part.strip().partition(':')
        got[int(name.strip()[1:])] = sorted(int(v) for v in vals.split() if v != '-')
    for r in range(nroutes):
        if got.get(r) != sorted(want[r]):
            raise Violation('route %d received %s, expected %s (native job output: %s)' % (r, got.get(r), sorted(want[r]), txt),
                            hlib._wit(ex))
    return {'native': txt}


def route_harness(w, nroutes, mode, bsize, iters, max_len):
    from mirsym.values import FnItem
    rnew = w.impls[(None, 'RoutingEnd')]['new'][0]
    setup_endpoints = w.impls[(None, 'RoutingEnd')]['setup_endpoints'][0]
    nxt = w.impls[('Operator', 'RoutingEnd')]['next'][0]
    bnew = w.impls[(None, 'Batcher')]['new'][0]
    hlib.check_se_table(w)
    ns = dict(w.src.enum_variants('NextStrategy'))

    def h(ex):
        own = hlib.coord(w, 1, 0, 0)
        script = hlib.gen_script(ex, iters, max_len, 'ITW', ts_span=(1000, 6),
                                 payload=lambda ex, k: ex.fresh_int('u64', 'x%d' % k))
        # the predicates are arbitrary functions of the element: one symbolic boolean per (route, data element),
        # equal elements get equal answers (these are inputs, so a witness pins them for the native replay)
        data = [el.fields[0] for el in script if el.variant in ('Item', 'Timestamped')]
        pb = [[ex.fresh_bool('pred%d_x%d' % (r, k)) for k in range(len(data))] for r in range(nroutes)]
        for r in range(nroutes):
            for i in range(len(data)):
                for j in range(i + 1, len(data)):
                    ex.assume(z3.Implies(data[i].z() == data[j].z(), pb[r][i] == pb[r][j]))

        def pred(r, x):
            for k, d in enumerate(data):
                if d.z().eq(x):
                    return pb[r][k]
            raise Unsupported('route predicate applied to an unknown element')
        preds = [(lambda x, r=r: pred(r, x)) for r in range(nroutes)]
        if ex.env.get('native'):
            return _native_route(ex, nroutes, data, preds)
        routes = VecModel([Agg('tuple', None, [Int('u64', 10 + r),
                                               Agg('struct', 'FilterFn', [FnItem('pred%d' % r, py=(lambda ex_, item, r=r: preds[r](deref(item).z())))], None)])
                           for r in range(nroutes)])
        bm = batch_mode(w, ex, mode, bsize)
        end = ex.call_function(rnew, [hlib.Upstream(script), routes, Enum('NextStrategy', 'OnlyOne', ns['OnlyOne'], []), bm])
        stubs, pairs = {}, []
        for r in range(nroutes):
            ep = hlib.mk_struct(w, 'ReceiverEndpoint', coord=hlib.coord(w, 10 + r, 0, 0), prev_block_id=Int('u64', 1))
            st = SenderStub((10 + r, 0))
            stubs[r] = st
            pairs.append(Agg('tuple', None, [ep, ex.call_function(bnew, [st, deep_copy(bm), deep_copy(own)])]))
        pairs.reverse()
        end.set('senders', VecModel(pairs))
        end.set('coord', some(deep_copy(own)))
        holder = [end]
        ex.call_function(setup_endpoints, [Ref(holder, 0)])
        for el in script:
            ex.call_function(nxt, [Ref(holder, 0)])
        sx = lambda: {'routes': nroutes, 'script': [repr(e) for e in script],
                      'sent': {str(k): [[repr(e) for e in b] for _, b in s.sent] for k, s in stubs.items()}}
        # oracle: first route whose predicate holds, and no other; unmatched dropped; markers to every route
        want = {r: [] for r in range(nroutes)}
        for el in script:
            if el.variant in ('Item', 'Timestamped'):
                x = el.fields[0]
                for r in range(nroutes):
                    if ex.branch(preds[r](x.z()), 'oracle: predicate %d' % r):
                        want[r].append(el)
                        break
                else:
                    hlib.cover(ex, 'dropped')
            elif el.variant in ('Watermark', 'FlushAndRestart', 'Terminate'):
                for r in range(nroutes):
                    want[r].append(el)
        for r in range(nroutes):
            got = stubs[r].flat()
            if [e.variant for e in got] != [e.variant for e in want[r]]:
                raise Violation('route %d received %s, expected %s' % (r, [e.variant for e in got],
                                                                       [e.variant for e in want[r]]), hlib._wit(ex), sx())
            for a, b in zip(got, want[r]):
                if a.variant in ('Item', 'Timestamped'):
                    check(ex, a.fields[0].z() == b.fields[0].z(), 'route delivered a different element', sx)
                    hlib.cover(ex, 'routed')
        return sx()
    return h


def route_tasks(tier, role):
    cfgs = [(2, 'fixed', 2), (3, 'single', 1)] if tier == 'quick' else [(2, 'fixed', 2), (3, 'single', 1), (3, 'adaptive', 2)]
    L = [2, 1] if tier == 'quick' else [3, 2]
    return [Task('route_%d_%s%d' % (n, m, b), 'route_harness', {'nroutes': n, 'mode': m, 'bsize': b, 'iters': 2, 'max_len': L},
                 bounds='RoutingEnd::setup_endpoints + next with %d routes (predicates uninterpreted), batch mode %s(%d), 2 '
                        'iterations x <=%s elements' % (n, m, b, L), role=role,
                 opts={'covers': ['routed', 'dropped']}, budget=300) for n, m, b in cfgs]
