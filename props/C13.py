"""C13 -- event-time / transaction windows never lose, duplicate or mix elements; fire on watermarks."""
from props.ops import *   # noqa

META = {
    'explanation': 'Event-time windows: the real EventTimeWindow::build + EventTimeWindowManager::process are '
                   'driven over every script of timestamped elements and watermarks within the bound (arrival '
                   'order arbitrary, timestamps symbolic); each result is checked for interval containment, '
                   'each element for its number of results, each firing against the watermarks seen.',
    'assumptions': ['input respects the watermark contract', '|timestamp| < 2^40'],
    'trusted': ['mirsym MIR executor and its std model table', 'z3 / cvc5'],
}


def TASKS(tier):
    return event_time_tasks(tier, 'event_time') + window_op_tasks(tier, 'window_operator', ('event_time',)) + \
        transaction_tasks(tier, 'transaction')
