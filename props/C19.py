"""C19 -- all hosts derive the same, well-formed execution graph."""
import z3
from lib.runner import Task
from mirsym.values import Int, Agg, Enum, Ref, Opaque, deep_copy, unit
from mirsym.executor import PyObj, Unsupported
from mirsym.explore import check, Violation
from mirsym.models import zbool, some, none, deref
from mirsym.models_coll import VecModel, MapModel
from mirsym import hlib

META = {
    'explanation': 'Execution graph. (a) Replication::{clamp,intersect} with symbolic limits: clamp <= n, intersect '
                   'commutative / associative / idempotent and clamp(intersect(a,b),n) = min(clamp(a,n),clamp(b,n)). '
                   '(b) Scheduler::remote_block_info / local_block_info with symbolic core counts on 1-3 hosts and '
                   'every Replication: replicas per host follow the rule, Limited fills host by host, global ids are a '
                   'bijection onto [0,#replicas), and the result does not depend on the deriving host. '
                   '(c) Scheduler::build_execution_graph: links created for forward (OnlyOne / fragile) and '
                   'all-to-all connections, for every iteration order of the hash maps.',
    'assumptions': ['all hosts run the same program with the same configuration file'],
    'trusted': ['mirsym MIR executor and its std model table', 'z3 / cvc5'],
}

REPL = None


def repl_enum(w):
    return dict(w.src.enum_variants('Replication'))


def sym_replication(ex, w, name, maxq=None):
    rv = repl_enum(w)
    kinds = ['Unlimited', 'Limited', 'Host', 'One']
    k = kinds[ex.choose(4, name)]
    if k == 'Limited':
        q = ex.fresh_int('u64', name + '_limit')
        ex.assume(z3.UGE(q.v, 1))
        if maxq:
            ex.assume(z3.ULE(q.v, maxq))
        return Enum('Replication', k, rv[k], [q])
    return Enum('Replication', k, rv[k], [])


def replication_algebra(w):
    clamp = w.impls[(None, 'Replication')]['clamp'][0]
    inter = w.impls[(None, 'Replication')]['intersect'][0]

    def eq(ex, a, b):
        if a.variant != b.variant:
            return False
        if a.fields:
            return zbool(ex.binop('Eq', a.fields[0], b.fields[0]))
        return True

    def h(ex):
        a, b, c = (sym_replication(ex, w, n) for n in 'abc')
        n = ex.fresh_int('u64', 'cores')
        ex.assume(z3.UGE(n.v, 1))
        I = lambda x, y: ex.call_function(inter, [Ref([deep_copy(x)], 0), deep_copy(y)])
        C = lambda x: ex.call_function(clamp, [Ref([deep_copy(x)], 0), n])
        sx = lambda: {'a': repr(a), 'b': repr(b), 'c': repr(c)}
        if ex.env.get('native'):
            runner, prof = ex.env['native']
            ex.env['native_used'] = True
            K = {'Unlimited': 0, 'Limited': 1, 'Host': 2, 'One': 3}
            args = []
            for r in (a, b, c):
                args += [K[r.variant], hlib.concrete_int(ex, r.fields[0]) if r.fields else 0]
            nn = hlib.concrete_int(ex, n)
            txt = runner('repl_algebra', args + [nn])[prof]
            ex.env['native_out'] = txt
            t = txt.split()
            if txt == 'PANIC' or len(t) != 8:
                raise Unsupported('native driver: ' + txt)
            ab, ba, ab_c, a_bc, aa = t[:5]
            ca, cb, cab = map(int, t[5:])
            show = lambda r: {'Unlimited': 'U', 'Host': 'H', 'One': 'O'}.get(r.variant) or 'L%d' % hlib.concrete_int(ex, r.fields[0])
            for ok_, msg in ((ab == ba, 'Replication::intersect is not commutative'),
                             (ab_c == a_bc, 'Replication::intersect is not associative'),
                             (aa == show(a), 'Replication::intersect is not idempotent'),
                             (ca <= nn, 'clamp exceeds the number of cores'), (ca >= 1, 'clamp gives zero replicas'),
                             (cab == min(ca, cb), 'clamp(intersect(a,b)) != min(clamp(a), clamp(b))')):
                if not ok_:
                    raise Violation(msg + ' (native output: %s)' % txt, hlib._wit(ex), sx())
            return {'native': txt}
        ab, ba = I(a, b), I(b, a)
        check(ex, eq(ex, ab, ba), 'Replication::intersect is not commutative', sx)
        check(ex, eq(ex, I(ab, c), I(a, I(b, c))), 'Replication::intersect is not associative', sx)
        check(ex, eq(ex, I(a, a), a), 'Replication::intersect is not idempotent', sx)
        ca, cb, cab = C(a), C(b), C(ab)
        check(ex, z3.ULE(ca.z(), n.v), 'clamp exceeds the number of cores', sx)
        check(ex, z3.UGE(ca.z(), 1), 'clamp gives zero replicas', sx)
        mn = z3.If(z3.ULE(ca.z(), cb.z()), ca.z(), cb.z())
        check(ex, cab.z() == mn, 'clamp(intersect(a,b)) != min(clamp(a), clamp(b))', sx)
        hlib.cover(ex, 'end')
        return sx()
    return h


REPL_KIND = {'Unlimited': 0, 'Limited': 1, 'Host': 2, 'One': 3}


def repl_args(ex, r):
    return [REPL_KIND[r.variant], hlib.concrete_int(ex, r.fields[0]) if r.fields else 0]


def native_block_info(ex, cores, repl, host_id):
    """(replicas per host, global ids) as derived by the real Scheduler::remote_block_info"""
    runner, prof = ex.env['native']
    ex.env['native_used'] = True
    args = [len(cores)] + [hlib.concrete_int(ex, c) for c in cores] + repl_args(ex, repl) + [host_id]
    txt = runner('block_info', args)[prof]
    ex.env['native_out'] = txt
    if txt == 'PANIC' or not txt.startswith('R'):
        from mirsym.executor import RustPanic
        raise RustPanic('the real remote_block_info failed: ' + txt)
    rpart, gpart = txt[1:].split('|')
    reps = {}
    for tok in rpart.split():
        b, h, r = map(int, tok.split('.'))
        reps.setdefault(h, []).append((b, h, r))
    gids = {}
    for tok in gpart.split()[1:]:
        c, g = tok.split('=')
        gids[tuple(map(int, c.split('.')))] = int(g)
    return reps, gids


class BlockStub(PyObj):
    name = 'Block'


def mk_block(w, bid, repl, only_one=False):
    sched = hlib.mk_struct(w, 'Scheduling', replication=repl)
    fields = w.src.struct_fields('Block')
    vals = {'id': Int('u64', bid), 'operators': Opaque('ops'), 'batch_mode': Enum('BatchMode', 'Single', 2, []),
            'iteration_ctx': VecModel([]), 'is_only_one_strategy': only_one, 'scheduling': sched}
    return Agg('struct', 'block::Block', [vals[f] for f in fields], list(fields))


def mk_scheduler(ex, w, cores, host_id):
    """Scheduler with a remote config of len(cores) hosts"""
    hosts = VecModel([hlib.mk_struct(w, 'HostConfig', address='h%d' % i, base_port=Int('u16', 9000),
                                     num_cores=c, ssh=Opaque('SSHConfig'), perf_path=none())
                      for i, c in enumerate(cores)])
    remote = hlib.mk_struct(w, 'RemoteConfig', host_id=some(Int('u64', host_id)), hosts=hosts, tracing_dir=none(),
                            cleanup_executable=False)
    cfg = Enum('RuntimeConfig', 'Remote', dict(w.src.enum_variants('RuntimeConfig'))['Remote'], [remote])
    sch = hlib.mk_struct(w, 'Scheduler', config=cfg, next_blocks=MapModel('HashMap'), prev_blocks=MapModel('HashMap'),
                         block_info=MapModel('HashMap'), block_init=VecModel([]), network=Opaque('NetworkTopology'))
    return sch, remote


def block_info_harness(w, nhosts, maxcores):
    rbi = w.impls[(None, 'Scheduler')]['remote_block_info'][0]

    def h(ex):
        cores = []
        for i in range(nhosts):
            c = ex.fresh_int('u64', 'cores%d' % i)
            ex.assume(z3.And(z3.UGE(c.v, 1), z3.ULE(c.v, maxcores)))
            cores.append(c)
        repl = sym_replication(ex, w, 'replication', maxq=nhosts * maxcores + 1)
        infos = []
        shapes = []
        if ex.env.get('native'):
            for host_id in range(nhosts):
                reps_, gids_ = native_block_info(ex, cores, repl, host_id)
                shapes.append((sorted(reps_.items()), sorted(gids_.items())))
        else:
            for host_id in range(nhosts):
                sch, remote = mk_scheduler(ex, w, cores, host_id)
                info = ex.call_function(rbi, [Ref([sch], 0), Ref([mk_block(w, 7, repl)], 0), Ref([remote], 0)])
                infos.append(info)
        sx = lambda: {'cores': [repr(c) for c in cores], 'replication': repr(repl),
                      'replicas': repr(shapes[0][0])[:400] if shapes else ''}
        # the same on every host
        for info in infos:
            reps = {}
            for k, v in info.get('replicas').entries:
                reps[ex.concretize(k)] = [tuple(ex.concretize(f) for f in c.fields) for c in v.items]
            gids = {tuple(ex.concretize(f) for f in k.fields): ex.concretize(v) for k, v in info.get('global_ids').entries}
            shapes.append((sorted(reps.items()), sorted(gids.items())))
        if any(s != shapes[0] for s in shapes):
            raise Violation('hosts derive different replica sets for the same block', hlib._wit(ex), sx())
        reps, gids = dict(shapes[0][0]), dict(shapes[0][1])
        total = sum(len(v) for v in reps.values())
        # rule per replication kind (under the path condition the per-host counts are concrete)
        want_total = None
        remaining = None
        for hid in range(nhosts):
            got = len(reps.get(hid, []))
            c = cores[hid]
            if repl.variant == 'Unlimited':
                check(ex, c.v == got, 'Unlimited: replicas on a host != its cores', sx)
            elif repl.variant == 'Host':
                if got != 1:
                    raise Violation('Host replication: %d replicas on a host' % got, hlib._wit(ex), sx())
            elif repl.variant == 'One':
                if got != (1 if hid == 0 else 0):
                    raise Violation('One replication: %d replicas on host %d' % (got, hid), hlib._wit(ex), sx())
            else:
                q = repl.fields[0].v
                used = sum(len(reps.get(j, [])) for j in range(hid))
                rem = q - used
                exp = z3.If(z3.ULE(rem, c.v), rem, c.v)
                check(ex, z3.And(z3.UGE(q, used), exp == got),
                      'Limited: host is not filled with min(remaining, cores) replicas', sx)
            coords = reps.get(hid, [])
            if coords != [(7, hid, r) for r in range(got)]:
                raise Violation('replica coordinates of a host are not (block, host, 0..n)', hlib._wit(ex), sx())
        allc = [c for v in reps.values() for c in v]
        if sorted(gids) != sorted(allc):
            raise Violation('global ids are not defined exactly for the replicas', hlib._wit(ex), sx())
        if sorted(gids.values()) != list(range(total)):
            raise Violation('global ids are not a bijection onto [0,#replicas)', hlib._wit(ex), sx())
        if total > 1:
            hlib.cover(ex, 'several_replicas')
        return sx()
    return h


class TopoLog(PyObj):
    name = 'NetworkTopology'

    def __init__(self):
        self.links = []

    def trait_call(self, ex, trait, method, args):
        if method == 'connect':
            f = tuple(ex.concretize(x) for x in args[1].fields)
            t = tuple(ex.concretize(x) for x in args[2].fields)
            self.links.append((f, t, args[4]))
            return unit()
        raise Unsupported('TopoLog %s' % method)


def graph_harness(w, nhosts, maxcores, mode):
    """two blocks 1 -> 2; `mode` in forward (OnlyOne producer) / fragile / shuffle"""
    rbi = w.impls[(None, 'Scheduler')]['remote_block_info'][0]
    beg = w.impls[(None, 'Scheduler')]['build_execution_graph'][0]

    def h(ex):
        ex.env['hash_order'] = 'any'
        cores = []
        for i in range(nhosts):
            c = ex.fresh_int('u64', 'cores%d' % i)
            ex.assume(z3.And(z3.UGE(c.v, 1), z3.ULE(c.v, maxcores)))
            cores.append(c)
        r1 = sym_replication(ex, w, 'producer', maxq=nhosts * maxcores)
        r2 = sym_replication(ex, w, 'consumer', maxq=nhosts * maxcores)
        if ex.env.get('native'):
            runner, prof = ex.env['native']
            args = [nhosts] + [hlib.concrete_int(ex, c) for c in cores] + repl_args(ex, r1) + repl_args(ex, r2) + \
                [{'forward': 0, 'fragile': 1, 'shuffle': 2}[mode]]
            ex.env['native_used'] = True
            txt = runner('graph', args)[prof]
            ex.env['native_out'] = txt
            if txt == 'PANIC' or txt.startswith(('BADARGS', 'UNKNOWN')):
                from mirsym.executor import RustPanic
                raise RustPanic('the real build_execution_graph failed: ' + txt)
            links = []
            for tok in txt.split():
                f, t = tok.split('>')
                links.append((tuple(map(int, f.split('.'))), tuple(map(int, t.split('.')))))
            p_reps, _ = native_block_info(ex, cores, r1, 0)
            c_reps, _ = native_block_info(ex, cores, r2, 0)
            prod = [(1,) + c[1:] for v in p_reps.values() for c in v]
            cons = [(2,) + c[1:] for v in c_reps.values() for c in v]
            return _judge_graph(ex, mode, prod, cons, links, cores, r1, r2)
        sch, remote = mk_scheduler(ex, w, cores, 0)
        topo = TopoLog()
        sch.set('network', topo)
        b1 = mk_block(w, 1, r1, only_one=(mode == 'forward'))
        b2 = mk_block(w, 2, r2)
        i1 = ex.call_function(rbi, [Ref([sch], 0), Ref([b1], 0), Ref([remote], 0)])
        i2 = ex.call_function(rbi, [Ref([sch], 0), Ref([b2], 0), Ref([remote], 0)])
        sch.get('block_info').entries += [[Int('u64', 1), i1], [Int('u64', 2), i2]]
        sch.get('next_blocks').entries.append([Int('u64', 1), VecModel([Agg('tuple', None, [Int('u64', 2), Opaque('TypeId'),
                                                                                           mode == 'fragile'])])])
        ex.call_function(beg, [Ref([sch], 0)])
        prod = [tuple(ex.concretize(f) for f in c.fields) for _, v in i1.get('replicas').entries for c in v.items]
        cons = [tuple(ex.concretize(f) for f in c.fields) for _, v in i2.get('replicas').entries for c in v.items]
        links = [(f, t) for f, t, _ in topo.links]
        return _judge_graph(ex, mode, prod, cons, links, cores, r1, r2)
    return h


def _judge_graph(ex, mode, prod, cons, links, cores, r1, r2):
    sx = lambda: {'mode': mode, 'cores': [repr(c) for c in cores], 'producer': repr(r1), 'consumer': repr(r2),
                  'producers': prod, 'consumers': cons, 'links': links}
    if len(set(links)) != len(links):
        raise Violation('a link is created twice', hlib._wit(ex), sx())
    if mode == 'shuffle':
        if sorted(links) != sorted((p, c) for p in prod for c in cons):
            raise Violation('all-to-all connection is not complete', hlib._wit(ex), sx())
    else:
        for p in prod:
            mine = [t for f, t in links if f == p]
            if len(mine) != 1:
                raise Violation('forward connection: producer replica has %d consumers (exactly one expected) '
                                '(forward_count)' % len(mine), hlib._wit(ex), sx())
            same = [c for c in cons if c[1:] == p[1:]]
            if same and mine[0] != same[0]:
                raise Violation('forward connection does not use the same-index replica although it exists',
                                hlib._wit(ex), sx())
        if len(prod) > 1:
            hlib.cover(ex, 'several_producers')
    return sx()


def TASKS(tier):
    ts = [Task('replication_algebra', 'replication_algebra', {},
               bounds='Replication a, b, c: every variant, Limited(n) with n >= 1 symbolic u64; cores >= 1 symbolic',
               role='replication', opts={'covers': ['end']})]
    grid = [(1, 3), (2, 2), (3, 2)] if tier == 'quick' else [(1, 4), (2, 3), (3, 2)]
    for nh, mc in grid:
        ts.append(Task('block_info_h%d_c%d' % (nh, mc), 'block_info_harness', {'nhosts': nh, 'maxcores': mc},
                       bounds='remote_block_info derived on each of %d hosts with 1..%d cores each (symbolic), every '
                              'Replication (Limited(q), 1 <= q <= hosts*cores+1 symbolic)' % (nh, mc),
                       role='block_info', opts={'covers': ['several_replicas']}, budget=300))
    g2 = [(1, 3), (2, 2)] if tier == 'quick' else [(1, 4), (2, 2), (2, 3)]
    for nh, mc in g2:
        for mode in ('forward', 'fragile', 'shuffle'):
            ts.append(Task('graph_%s_h%d_c%d' % (mode, nh, mc), 'graph_harness',
                           {'nhosts': nh, 'maxcores': mc, 'mode': mode},
                           bounds='build_execution_graph for block 1 -> block 2 (%s), %d hosts x 1..%d cores, every pair '
                                  'of Replications, hash map iteration order arbitrary' % (mode, nh, mc),
                           role='graph_' + mode, opts={'covers': ['several_producers'] if mode != 'shuffle' else []},
                           budget=300))
    return ts


def classify(t, v):
    if '(forward_count)' in v['msg']:
        return 'graph/forward_producer_without_exactly_one_consumer'
    return t.role + '/' + v['msg'][:50]


# ------------------------------------------------------------------------------------ demultiplexer addresses

def topology_build_harness(w, nhosts, nlinks):
    """NetworkTopology::build over an arbitrary set of links: the port of every demultiplexer endpoint is the same
    whatever the hash-map iteration order (hence on every host), and no two endpoints of a host share a port"""
    build = w.impls[(None, 'NetworkTopology')]['build'][0]
    fields = w.src.struct_fields('NetworkTopology')

    def h(ex):
        ex.env['hash_order'] = 'any'
        # links between blocks 1..3, replicas on up to nhosts hosts
        links = []
        for i in range(nlinks):
            fb = 1 + ex.choose(2, 'from block')
            tb = fb + 1 + ex.choose(2, 'to block')
            fh, th = ex.choose(nhosts, 'from host'), ex.choose(nhosts, 'to host')
            fr, tr = ex.choose(2, 'from replica'), ex.choose(2, 'to replica')
            links.append(((fb, fh, fr), (tb, th, tr)))
        nxt = MapModel('HashMap')
        for f, t in links:
            key = Agg('tuple', None, [hlib.coord(w, *f), Opaque('TypeId')])
            i = None
            for j, (k, v) in enumerate(nxt.entries):
                if [x.v for x in k.fields[0].fields] == list(f):
                    i = j
            if i is None:
                nxt.entries.append([key, VecModel([])])
                i = len(nxt.entries) - 1
            nxt.entries[i][1].items.append(Agg('tuple', None, [hlib.coord(w, *t), False]))
        base = [ex.fresh_int('u16', 'base_port%d' % i) for i in range(nhosts)]
        for b in base:
            ex.assume(z3.ULT(b.v, 60000))
        sch, remote = mk_scheduler(ex, w, [Int('u64', 2)] * nhosts, 0)
        for i, hc in enumerate(remote.get('hosts').items):
            hc.set('base_port', base[i])
        vals = {f: Opaque(f) for f in fields}
        vals.update(config=sch.get('config'), next=nxt, prev=MapModel('HashMap'), senders_metadata=MapModel('HashMap'),
                    block_replicas=MapModel('HashMap'), demultiplexer_addresses=MapModel('HashMap'))
        if ex.env.get('native'):
            runner, prof = ex.env['native']
            args = [nhosts, nlinks]
            for f, t in links:
                args += list(f) + list(t)
            args += [hlib.concrete_int(ex, b) for b in base]
            ex.env['native_used'] = True
            txt = runner('topology_build', args)[prof]
            ex.env['native_out'] = txt
            if txt == 'PANIC' or txt.startswith(('BADARGS', 'UNKNOWN')):
                from mirsym.executor import RustPanic
                raise RustPanic('the real NetworkTopology::build failed: ' + txt)
            addrs = []
            for tok in txt.split():
                left, port = tok.split('=')
                tbh, fb = left.split('<')
                tb, th = tbh.split('.')
                k = hlib.mk_struct(w, 'DemuxCoord', coord=hlib.mk_struct(w, 'BlockCoord', block_id=Int('u64', int(tb)),
                                                                         host_id=Int('u64', int(th))),
                                   prev_block_id=Int('u64', int(fb)))
                addrs.append([k, Agg('tuple', None, ['h', Int('u16', int(port))])])
        else:
            topo = Agg('struct', 'NetworkTopology', [vals[f] for f in fields], list(fields))
            holder = [topo]
            ex.call_function(build, [Ref(holder, 0)])
            addrs = holder[0].get('demultiplexer_addresses').entries
        # canonical expectation: endpoints (to block, to host, from block) sorted, ports handed out per host in order
        eps = sorted(set((t[0], t[1], f[0]) for f, t in links))
        sx = lambda: {'links': links, 'addresses': [(repr(k), repr(v)) for k, v in addrs]}
        if len(addrs) != len(eps):
            raise Violation('%d demultiplexer addresses for %d endpoints' % (len(addrs), len(eps)), hlib._wit(ex), sx())
        used = {}
        want = {}
        for (tb, th, fb) in eps:
            want[(tb, th, fb)] = used.get(th, 0)
            used[th] = used.get(th, 0) + 1
        for k, v in addrs:
            bc = k.get('coord')
            key = (bc.get('block_id').v, bc.get('host_id').v, k.get('prev_block_id').v)
            if key not in want:
                raise Violation('address assigned to an endpoint that has no link', hlib._wit(ex), sx())
            port = v.fields[1]
            check(ex, port.z() == base[key[1]].v + want[key],
                  'demultiplexer port depends on the iteration order of the link map (hosts would disagree) or '
                  'collides on a host', sx)
        if len(eps) > 1:
            hlib.cover(ex, 'several_endpoints')
        return sx()
    return h


_graph_tasks = TASKS


def TASKS(tier):    # noqa: F811
    ts = _graph_tasks(tier)
    for nh, nl in ([(2, 2)] if tier == 'quick' else [(2, 2), (2, 3)]):
        ts.append(Task('topology_build_h%d_l%d' % (nh, nl), 'topology_build_harness', {'nhosts': nh, 'nlinks': nl},
                       bounds='NetworkTopology::build with %d links between replicas of 3 blocks on %d hosts (every '
                              'choice), symbolic base ports, the link map iterated in every order' % (nl, nh),
                       role='topology_build', opts={'covers': ['several_endpoints']}, budget=300))
    return ts
