"""Harness for `Start<Receiver>` (block input): N upstream replicas each sending a grammar-valid
script cut into batches; the arrival order of batches (the interleaving) and receive timeouts are
nondeterministic choices explored exhaustively; timestamps are symbolic.

Serves C02 (per-link order / exactly once), C05 (grammar, end markers), C06 (watermark safety),
C16 (order with one sender), C17 (watermark progress), C18 (timeout -> exactly one FlushBatch)."""
import z3
from lib.runner import Task
from mirsym.values import Int, Agg, Enum, Ref, Opaque, deep_copy, unit
from mirsym.executor import PyObj, Unsupported
from mirsym.explore import check, Violation
from mirsym.models import zbool, some, none, ok, err, deref
from mirsym.models_coll import VecModel
from mirsym import hlib


class ScriptReceiver(PyObj):
    """StartReceiver stub: delivers the next batch of any sender that still has one (fork per choice);
    `recv_timeout` may also time out (at most `max_timeouts` times)."""
    name = 'VerifStartReceiver'

    def __init__(self, w, coords, batches, max_timeouts=0):
        self.w = w
        self.coords = coords
        self.batches = [list(b) for b in batches]    # per sender: list of batches (lists of elements)
        self.max_timeouts = max_timeouts
        self.adaptive = False
        self.forced = False
        self.log = []                                # ('batch', sender, [elements]) | ('timeout',)
        self.ended = [0] * len(coords)               # iterations ended per sender

    def _deliver(self, ex, allow_timeout):
        # iteration barrier (C10): no upstream replica starts iteration k+1 before all have ended k
        low = min(self.ended)
        # (a replica that finished its last iteration may send Terminate while the others are still running)
        avail = [i for i, b in enumerate(self.batches) if b and (self.ended[i] <= low or
                                                                   all(e.variant == 'Terminate' for e in b[0]))]
        if not allow_timeout and self.adaptive and not self.forced and hlib.unflushed(ex):
            # C18: adaptive batching, Start waits WITHOUT a timeout although elements it passed downstream have not
            # been followed by a FlushBatch / FlushAndRestart.  The producers may pause here; recorded like a timeout,
            # so the oracle expects the FlushBatch a correct Start would emit and the native replay really pauses.
            self.forced = True
            self.log.append(('timeout',))
        nopt = len(avail) + (1 if allow_timeout and self.max_timeouts > 0 else 0)
        if nopt == 0:
            raise Violation('Start waits for a batch although every upstream replica has terminated (deadlock)')
        if allow_timeout and self.log and self.log[-1] == ('timeout',):
            raise Violation('Start waits with a timeout again right after a timeout: it would emit FlushBatch forever '
                            'instead of blocking until data arrives')
        k = ex.choose(nopt, 'arrival') if nopt > 1 else 0
        if k >= len(avail):
            self.max_timeouts -= 1
            self.log.append(('timeout',))
            return None
        s = avail[k]
        batch = self.batches[s].pop(0)
        self.ended[s] += sum(1 for e in batch if e.variant == 'FlushAndRestart')
        self.log.append(('batch', s, batch))
        new_batch = self.w.impls[(None, 'NetworkMessage')]['new_batch'][0]
        return ex.call_function(new_batch, [VecModel([deep_copy(e) for e in batch]), deep_copy(self.coords[s])])

    def trait_call(self, ex, trait, method, args):
        if trait == 'StartReceiver':
            if method == 'setup':
                return unit()
            if method == 'prev_replicas':
                return VecModel([deep_copy(c) for c in self.coords])
            if method == 'cached_replicas':
                return Int('usize', 0)
            if method == 'recv':
                return self._deliver(ex, False)
            if method == 'recv_timeout':
                m = self._deliver(ex, True)
                if m is None:
                    return err(Enum('channel::RecvTimeoutError', 'Timeout', 0, []))
                return ok(m)
        if trait == 'Clone':
            return self
        raise Unsupported('ScriptReceiver %s::%s' % (trait, method))


class StateLockStub(PyObj):
    """IterationStateLock seen by Start: records the generations it is asked to wait for"""
    name = 'IterationStateLock'

    def __init__(self):
        self.calls = []

    def trait_call(self, ex, trait, method, args):
        if method == 'wait_for_update':
            self.calls.append(ex.concretize(args[1]))
            return unit()
        if trait == 'Clone':
            return self
        raise Unsupported('StateLockStub ' + method)

    def deref_model(self, ex, r):
        return r


def cut_batches(ex, script, mode):
    """cut a sender's script into batches"""
    # End flushes its batchers at every FlushAndRestart, so a batch never continues past one
    if mode == 'each':
        return [[e] for e in script]
    out, cur = [], []
    for i, e in enumerate(script):
        cur.append(e)
        if i == len(script) - 1 or e.variant == 'FlushAndRestart' or \
                (mode == 'any' and ex.choose(2, 'cut') == 1):
            out.append(cur)
            cur = []
    return out


def exec_metadata(w, coord, adaptive):
    bm_variants = dict(w.src.enum_variants('BatchMode'))
    if adaptive:
        bm = Enum('BatchMode', 'Adaptive', bm_variants['Adaptive'], [Int('usize', 1024), Opaque('Duration')])
    else:
        bm = Enum('BatchMode', 'Fixed', bm_variants['Fixed'], [Int('usize', 1024)])
    return hlib.mk_struct(w, 'ExecutionMetadata', coord=coord, replicas=VecModel([deep_copy(coord)]),
                          global_id=Int('u64', 0), prev=VecModel([]), network=Opaque('NetworkTopology'),
                          batch_mode=bm)


def expected_output(ex, rx_log, nsenders):
    """Oracle: what the operators after Start must observe, given the consumption order."""
    exp = []
    causes = {}
    active = [True] * nsenders
    lastwm = [None] * nsenders
    emitted = None
    terminated = 0

    def frontier():
        vals = [lastwm[i] for i in range(nsenders) if active[i]]
        if not vals or any(v is None for v in vals):
            return None
        return hlib.bv_min(vals)

    def maybe_emit(cause):
        nonlocal emitted
        f = frontier()
        if f is None:
            return
        if emitted is None or ex.branch(f > emitted, 'oracle: frontier increased'):
            emitted = f
            e = hlib.se('Watermark', Int('i64', f))
            causes[id(e)] = cause
            exp.append(e)
    for ev in rx_log:
        if ev[0] == 'timeout':
            exp.append(hlib.se('FlushBatch'))
            continue
        _, s, batch = ev
        for e in batch:
            if e.variant in ('Item', 'Timestamped', 'FlushBatch'):
                exp.append(e)
            elif e.variant == 'Watermark':
                t = e.fields[0].v
                if lastwm[s] is None or ex.branch(t > lastwm[s], 'oracle: wm newer'):
                    lastwm[s] = t
                maybe_emit('watermark')
            elif e.variant == 'FlushAndRestart':
                active[s] = False
                if any(active):
                    maybe_emit('replica_ended')   # a finished replica no longer holds the others back
                else:
                    exp.append(hlib.se('FlushAndRestart'))
                    active = [True] * nsenders
                    lastwm = [None] * nsenders
                    emitted = None
            elif e.variant == 'Terminate':
                terminated += 1
                if terminated == nsenders:
                    exp.append(hlib.se('Terminate'))
    return exp, causes


def norm_wm_runs(seq):
    """collapse runs of consecutive watermarks to their last element (coalescing is allowed)"""
    out = []
    for e in seq:
        if e.variant == 'Watermark' and out and out[-1].variant == 'Watermark':
            out[-1] = e
        else:
            out.append(e)
    return out


def start_harness(w, nsenders, iters, max_len, timed=True, cut='any', adaptive=False, max_timeouts=0,
                  progress=True, lock=False):
    new = w.impls[(None, 'Start')]['new'][0]
    setup = w.impls[('Operator', 'Start')]['setup'][0]
    nxt = w.impls[('Operator', 'Start')]['next'][0]
    hlib.check_se_table(w)

    def h(ex):
        coords = [hlib.coord(w, 0, 0, i) for i in range(nsenders)]
        scripts, k0 = [], 0
        for s in range(nsenders):
            sc = hlib.gen_script(ex, iters, max_len, 'TW' if timed else 'I', name='s%d' % s,
                                 payload=lambda ex, k, s=s: Int('u64', 100 * (s + 1) + k),
                                 ts_span=(1000, 6) if timed else None)
            scripts.append(sc)
        batches = [cut_batches(ex, sc, cut) for sc in scripts]
        rx = ScriptReceiver(w, coords, batches, max_timeouts if adaptive else 0)
        rx.adaptive = bool(adaptive)
        lk = StateLockStub() if lock else None
        from mirsym.models_coll import ArcModel
        st = ex.call_function(new, [rx, some(ArcModel(lk)) if lock else none()])
        holder = [st]
        md = exec_metadata(w, hlib.coord(w, 1, 0, 0), adaptive)
        ex.call_function(setup, [Ref(holder, 0), Ref([md], 0)])
        total = sum(len(s) for s in scripts)
        if lock:
            # C10: the first element of iteration k >= 1 passes only after wait_for_update(2k)
            out, itn, waited = [], 0, False
            while True:
                n0 = len(lk.calls)
                el = ex.call_function(nxt, [Ref(holder, 0)])
                out.append(el)
                for g in lk.calls[n0:]:
                    if g != 2 * itn:
                        raise Violation('Start waits for state generation %d in iteration %d (expected %d): it would '
                                        'read an older state or block forever' % (g, itn, 2 * itn), hlib._wit(ex))
                    waited = True
                if el.variant == 'FlushAndRestart':
                    itn += 1
                    waited = False
                elif el.variant == 'Terminate':
                    break
                elif itn >= 1 and not waited:
                    raise Violation('Start lets an element of iteration %d pass without waiting for the state of the '
                                    'previous round (wait_for_update not called)' % itn, hlib._wit(ex),
                                    {'output': [repr(x) for x in out]})
                elif itn >= 1:
                    hlib.cover(ex, 'waited_for_state')
                if len(out) > 2 * total + 8:
                    raise Violation('Start does not terminate', hlib._wit(ex))
        else:
            out = hlib.drive(ex, nxt, holder, 2 * total + 8)
        if ex.env.get('native'):
            # replay: the model run above fixed the arrival order; now the real Start gets the same batches
            # in the same order (a model timeout = the sender sleeping 3x max_delay before the next batch)
            args = [nsenders, int(bool(adaptive)), sum(1 for ev in rx.log if ev[0] == 'batch')]
            sleep = 0
            for ev in rx.log:
                if ev[0] == 'timeout':
                    sleep = 300
                    continue
                args += [ev[1], sleep, len(ev[2])] + hlib.encode_script(ex, ev[2], False)
                sleep = 0
            runner, prof = ex.env['native']
            ex.env['native_used'] = True
            txt = runner('start', args)[prof]
            ex.env['native_out'] = txt
            if txt == 'PANIC':
                from mirsym.executor import RustPanic
                raise RustPanic('the real Start panicked on this input')
            toks = txt.split()
            if toks and toks[-1] in ('TIMEOUT', 'OVERRUN'):
                raise Violation('the real Start does not terminate on this input (%s)' % toks[-1], hlib._wit(ex),
                                {'native': txt})
            out = [hlib.parse_token(t) for t in toks]
        sx = lambda: {'senders': [[repr(e) for e in s] for s in scripts],
                      'arrival': [(ev[0], ev[1] if len(ev) > 1 else None, len(ev[2]) if len(ev) > 2 else 0)
                                  for ev in rx.log],
                      'output': [repr(e) for e in out]}
        hlib.check_grammar(ex, out, iters, 'Start output')
        hlib.check_wm_contract(ex, out, 'Start output')
        exp, causes = expected_output(ex, rx.log, nsenders)
        o, e = norm_wm_runs(out), norm_wm_runs(exp)
        # divergences that consist only of missing watermarks the oracle expected because a replica
        # ended are classified separately (role 'replica_ended'): drop those expectations and compare
        # again, so that any other divergence on the same path is still reported under its own role
        def same(a, b):
            if [x.variant for x in a] != [x.variant for x in b]:
                return False
            for x, y in zip(a, b):
                if x.variant == 'Watermark' and not ex.valid(x.fields[0].v == y.fields[0].v):
                    return False
            return True
        if not same(o, e):
            exp2 = [x for x in exp if not (x.variant == 'Watermark' and causes.get(id(x)) == 'replica_ended')]
            if len(exp2) < len(exp) and same(o, norm_wm_runs(exp2)):
                e = norm_wm_runs(exp2)
                ex.env['withheld'] = len(exp) - len(exp2)
        if [x.variant for x in o] != [x.variant for x in e]:
            raise Violation('Start output differs from the expected sequence (lost/duplicated/reordered element, '
                            'withheld or spurious watermark, end marker)', hlib._wit(ex),
                            dict(sx(), expected=[repr(x) for x in exp]))
        for a, b in zip(o, e):
            if a.variant in ('Item', 'Timestamped'):
                if a.fields[0].v != b.fields[0].v:
                    raise Violation('Start delivered elements of one upstream replica out of order', hlib._wit(ex),
                                    dict(sx(), expected=[repr(x) for x in exp]))
                if a.variant == 'Timestamped':
                    check(ex, a.fields[1].v == b.fields[1].v, 'Start altered a timestamp', sx)
            elif a.variant == 'Watermark':
                hlib.cover(ex, 'watermark_forwarded')
                check(ex, a.fields[0].v == b.fields[0].v,
                      'forwarded watermark is not the minimum over the active upstream replicas', sx)
        if any(b for b in rx.batches):
            raise Violation('Start terminated with undelivered batches', hlib._wit(ex), sx())
        if ex.env.get('withheld') and progress:
            from mirsym.explore import discharge
            discharge(ex)       # everything else on this path holds
            raise Violation('watermark released by the end of an upstream replica is not forwarded '
                            '(replica_ended)', hlib._wit(ex), dict(sx(), expected=[repr(x) for x in exp]))
        if max_timeouts and any(ev[0] == 'timeout' for ev in rx.log):
            hlib.cover(ex, 'timeout')
        return sx()
    return h


def start_tasks(tier, role, progress=True):
    ts = []
    if tier == 'quick':
        cfgs = [dict(nsenders=2, iters=1, max_len=2, timed=True, cut='each'),
                dict(nsenders=2, iters=2, max_len=[1, 1], timed=True, cut='one'),
                dict(nsenders=3, iters=1, max_len=1, timed=True, cut='one'),
                dict(nsenders=2, iters=2, max_len=[1, 1], timed=False, cut='each', adaptive=True, max_timeouts=1),
                dict(nsenders=1, iters=2, max_len=2, timed=True, cut='any')]
    else:
        cfgs = [dict(nsenders=2, iters=2, max_len=[2, 1], timed=True, cut='each'),
                dict(nsenders=2, iters=1, max_len=3, timed=True, cut='each'),
                dict(nsenders=2, iters=1, max_len=2, timed=True, cut='any'),
                dict(nsenders=3, iters=2, max_len=[1, 0], timed=True, cut='one'),
                dict(nsenders=3, iters=1, max_len=2, timed=True, cut='one'),
                dict(nsenders=2, iters=2, max_len=[2, 1], timed=False, cut='each', adaptive=True, max_timeouts=2),
                dict(nsenders=1, iters=2, max_len=[3, 2], timed=True, cut='any')]
    for c in cfgs:
        nm = 'start_n%d_i%d_l%s_%s_%s%s' % (c['nsenders'], c['iters'], c['max_len'], 'ts' if c['timed'] else 'items',
                                            c['cut'], '_adaptive' if c.get('adaptive') else '')
        nm = nm.replace(' ', '').replace('[', '').replace(']', '').replace(',', '-')
        covers = ['watermark_forwarded'] if c['timed'] else (['timeout'] if c.get('adaptive') else [])
        ts.append(Task(nm, 'start_harness', dict(c, progress=progress),
                       bounds='Start::next driven to Terminate with %d upstream replicas x %d iterations x <=%s '
                              'elements (%s), batches cut "%s", every arrival interleaving%s; timestamps symbolic in '
                              '[1000,1006)' % (c['nsenders'], c['iters'], c['max_len'],
                                               'Timestamped/Watermark' if c['timed'] else 'Item', c['cut'],
                                               ', receive timeouts at any point' if c.get('adaptive') else ''),
                       role=role, opts={'covers': covers}, budget=300))
    return ts


def classify_start(t, v):
    if '(flushbatch_before_terminate)' in v['msg']:
        return 'start/flushbatch_before_terminate'
    if '(replica_ended)' in v['msg']:
        return 'start/watermark_withheld_when_replica_ends'
    return 'start/' + v['msg'][:60]
