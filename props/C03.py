"""C03 -- each connection kind routes elements to exactly the replicas it promises."""
from props.end import *    # noqa

META = {
    'explanation': 'Routing: the real End::setup_senders and End::next (with the real Batcher and NextStrategy) are '
                   'driven over symbolic scripts; the endpoints arrive in arbitrary order; the group-by hash is an '
                   'uninterpreted function of (seed, key), so a replica choice that depends on anything else is a '
                   'counterexample.',
    'assumptions': ['wyhash is a function of seed and key bytes only', 'nanorand returns an arbitrary value'],
    'trusted': ['mirsym MIR executor and its std model table', 'z3 / cvc5'],
}


def TASKS(tier):
    return end_tasks(tier, 'end_routing', ('routing',))


# ------------------------------------------------------------------------------------ which strategy a builder asks for

class RecStream(PyObj):
    """stands for `Stream<Op>` inside the builder functions that open a new block: records the NextStrategy handed to
    split_block / binary_connection"""
    name = 'Stream'
    any_type = True

    def __init__(self, log=None, tag='self'):
        self.log = log if log is not None else []
        self.tag = tag

    def trait_call(self, ex, trait, method, args):
        if method == 'split_block':
            self.log.append(('split_block', self.tag, [args[2]]))
            return RecStream(self.log, 'new')
        if method == 'binary_connection':
            self.log.append(('binary_connection', self.tag, [args[3], args[4]], args[1]))
            return RecStream(self.log, 'new')
        if method in ('add_operator',):
            return RecStream(self.log, self.tag)
        if trait == 'Clone':
            return self
        return NotImplemented


WIRING = {
    # builder: (type, method, what the property promises)
    'shuffle': ('Stream', 'shuffle', ['Random']),
    'broadcast': ('Stream', 'broadcast', ['All']),
    'group_by': ('Stream', 'group_by', ['GroupBy']),
    'ship_hash': ('JoinStreamShipHash', 'new', ['GroupBy', 'GroupBy']),
    'ship_broadcast_right': ('JoinStreamShipBroadcastRight', 'new', ['OnlyOne', 'All']),
    # the two-phase keyed aggregations (group_by_reduce / sum / count / avg / min / max are built on it): their output is
    # a KeyedStream that keyed joins / merges combine with a group_by stream WITHOUT repartitioning
    'group_by_fold': ('Stream', 'group_by_fold', ['GroupBy']),
}


def _native_wiring(ex, builder):
    """public-API replay (kind `pipe_wiring`): the real builder in a job with 3 replicas per block on a fixed data set;
    the observable consequence of the connection kind is compared with its meaning"""
    from mirsym.executor import RustPanic
    L = [(0, 10), (1, 11), (2, 12), (0, 13), (1, 14), (5, 15), (7, 16)]
    R = [(0, 20), (0, 21), (2, 22), (7, 23), (9, 24)]
    par = 3
    code = ['shuffle', 'broadcast', 'group_by', 'ship_hash', 'ship_broadcast_right', 'group_by_fold'].index(builder)
    args = [par, code, len(L)] + [x for kv in L for x in kv] + [len(R)] + [x for kv in R for x in kv]
    runner, prof = ex.env['native']
    ex.env['native_used'] = True
    txt = runner('pipe_wiring', args)[prof]
    ex.env['native_out'] = txt
    if txt == 'PANIC':
        raise RustPanic('the real %s job panicked' % builder)
    if txt.startswith(('BADARGS', 'UNKNOWN', 'NORESULT', 'NOOUTPUT')):
        raise Unsupported('native driver: ' + txt)
    if txt.startswith('TIMEOUT'):
        raise Violation('the real %s job does not terminate' % builder, hlib._wit(ex))
    if builder == 'shuffle':
        want = sorted('%d:%d' % kv for kv in L)
    elif builder == 'broadcast':
        want = sorted('%d:%d' % kv for kv in L for _ in range(par))
    elif builder == 'group_by':
        want = sorted('%d:%d' % (k, sum(1 for kk, _ in L if kk == k)) for k in set(k for k, _ in L))
    elif builder == 'group_by_fold':
        want = sorted('%d:%d-%d' % (k, sum(1 for kk, _ in L if kk == k), rv) for k, rv in R if any(kk == k for kk, _ in L))
    else:
        want = []
        for k, lv in L:
            ms = [rv for rk, rv in R if rk == k]
            want += ['%d:%d-%d' % (k, lv, rv) for rv in ms] or ['%d:%d-_' % (k, lv)]
        want = sorted(want)
    got = sorted(t for t in txt.split() if t != '-')
    if got != want:
        raise Violation('%s: the real job (3 replicas) delivers %s, the connection kind promises %s' % (builder, got, want),
                        hlib._wit(ex))
    return {'native': txt}


def wiring_harness(w, builder):
    ty, meth, want = WIRING[builder]
    fns = w.impls[(None, ty)][meth]
    fn = [f for f in fns if 'Keyed' not in f.header.split('(')[0]][0] if len(fns) > 1 else fns[0]
    index = w.impls[(None, 'NextStrategy')]['index'][0]
    hfn = w.prog.find_function('group_by_hash') if hasattr(w.prog, 'find_function') else None

    def h(ex):
        ex.env['generics'] = {'Key': 'u64', 'K': 'u64'}
        if ex.env.get('native'):
            return _native_wiring(ex, builder)
        log = []
        lhs = RecStream(log, 'lhs')
        if ty == 'Stream':
            args = [lhs] + ([KeyOf()] if builder == 'group_by' else []) + \
                ([KeyOf(), Int('u64', 0), Opaque('local fold'), Opaque('global fold')] if builder == 'group_by_fold' else [])
        else:
            prev = hlib.mk_struct(w, 'JoinStream', lhs=lhs, rhs=RecStream(log, 'rhs'), keyer1=KeyOf(), keyer2=KeyOf(),
                                  _key=Opaque('PhantomData'))
            args = [prev]
        ex.call_function(fn, args)
        calls = [c for c in log if c[0] in ('split_block', 'binary_connection')]
        if len(calls) != 1:
            raise Violation('%s::%s opens %d connections, expected one' % (ty, meth, len(calls)), hlib._wit(ex))
        c = calls[0]
        if c[1] != 'lhs':
            raise Violation('%s::%s connects from the wrong stream (%s)' % (ty, meth, c[1]), hlib._wit(ex))
        if c[0] == 'binary_connection' and not (isinstance(c[3], RecStream) and c[3].tag == 'rhs'):
            raise Violation('%s::%s does not connect the right-hand stream as second input' % (ty, meth), hlib._wit(ex))
        got = [s.variant for s in c[2]]
        sx = {'builder': builder, 'strategies': got}
        if got != want:
            raise Violation('%s::%s asks for connection kind %s, the property promises %s' % (ty, meth, got, want),
                            hlib._wit(ex), sx)
        # group-by connections: the replica index is the hash of the user's key, for both inputs of a join
        idx = []
        for j, s in enumerate(c[2]):
            if s.variant != 'GroupBy':
                continue
            key = ex.fresh_int('u64', 'key') if not idx else idx[0][1]
            item = Agg('tuple', None, [deep_copy(key), ex.fresh_int('u64', 'payload%d' % j)])
            i = ex.call_function(index, [Ref([s], 0), Ref([item], 0)])
            idx.append((i, key))
        if idx:
            # ... and it is THE crate-wide function of the key (block::group_by_hash, fixed seed): every keyed stream is
            # partitioned alike, which keyed joins / merges of two KeyedStreams rely on (they do not repartition)
            gh = [f for f in w.prog.functions if f.name.endswith('group_by_hash') and 'closure' not in f.name]
            if len(gh) != 1:
                raise Unsupported('block::group_by_hash not found')
            ref = ex.call_function(gh[0], [Ref([deep_copy(idx[0][1])], 0)])
            check(ex, idx[0][0].z() == ref.z(), 'group-by connection is not routed by group_by_hash(key): this keyed stream is '
                                               'partitioned differently from the others, equal keys of two keyed streams do '
                                               'not meet on one replica', lambda: sx)
        for i, _ in idx[1:]:
            check(ex, i.z() == idx[0][0].z(), 'the two inputs of the join are routed by different functions of the key: equal '
                                            'keys do not meet on one replica', lambda: sx)
        if idx:
            # depends on the key only: a second element with the same key and another payload gets the same index
            s = [s for s in c[2] if s.variant == 'GroupBy'][0]
            item2 = Agg('tuple', None, [deep_copy(idx[0][1]), ex.fresh_int('u64', 'other_payload')])
            i2 = ex.call_function(index, [Ref([s], 0), Ref([item2], 0)])
            check(ex, i2.z() == idx[0][0].z(), 'group-by routing depends on more than the key', lambda: sx)
        hlib.cover(ex, 'end')
        return sx
    return h


_end_tasks = TASKS


def TASKS(tier):     # noqa: F811
    return _end_tasks(tier) + [
        Task('wiring_' + b, 'wiring_harness', {'builder': b},
             bounds='%s::%s executed from MIR against a recording stream stub: the NextStrategy it hands to split_block / '
                    'binary_connection; GroupBy strategies evaluated on symbolic (key, payload) items with the hash '
                    'uninterpreted' % (WIRING[b][0], WIRING[b][1]), role='wiring', opts={'covers': ['end']})
        for b in WIRING]
