"""C03 -- each connection kind routes elements to exactly the replicas it promises."""
from props.end import *    # noqa

META = {
    'explanation': 'Routing: the real End::setup_senders and End::next (with the real Batcher and NextStrategy) are '
                   'driven over symbolic scripts; the endpoints arrive in arbitrary order; the group-by hash is an '
                   'uninterpreted function of (seed, key), so a replica choice that depends on anything else is a '
                   'counterexample.',
    'assumptions': ['wyhash is a function of seed and key bytes only', 'nanorand returns an arbitrary value'],
    'trusted': ['mirsym MIR executor and its std model table', 'z3 / cvc5'],
}


def TASKS(tier):
    return end_tasks(tier, 'end_routing', ('routing',))
