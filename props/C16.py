"""C16 -- sequential paths preserve order; reorder() sorts by timestamp without loss."""
from props.ops import *        # noqa
from props.start import *      # noqa
from props.end import *        # noqa

META = {
    'explanation': 'Order: (a) End+Batcher with one downstream replica and every batch mode: the delivered sequence '
                   'is the produced sequence; (b) Start with a single upstream replica and every batch cut: output = '
                   'input; (c) Reorder over every contract-respecting symbolic script: output is a permutation in '
                   'non-decreasing timestamp order, each element released only after a covering watermark or the '
                   'end of the iteration.',
    'assumptions': ['glidesort sorts stably by the Ord of the element type (model)', 'flume channels are FIFO'],
    'trusted': ['mirsym MIR executor and its std model table', 'z3 / cvc5'],
}


def TASKS(tier):
    st = [t for t in start_tasks(tier, 'start', progress=False) if t.params['nsenders'] == 1]
    en = [t for t in end_tasks(tier, 'end_order', ('batching',)) if t.params['blocks'] == [1]]
    return reorder_tasks(tier, 'reorder') + st + en + flat_map_tasks(tier, 'flat_map')


def classify(t, v):
    if t.factory == 'start_harness':
        return classify_start(t, v)
    return t.role
