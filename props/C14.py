"""C14 -- processing-time and session windows conserve elements whatever the timing."""
from props.ops import *        # noqa

META = {
    'explanation': 'Time-driven windows: SessionWindowManager and ProcessingTimeWindowManager (tumbling and sliding) are '
                   'driven with std::time::Instant::now replaced by an arbitrary non-decreasing symbolic clock; every '
                   'element must be in exactly one result (1..ceil(size/slide) for sliding), results keep arrival order, '
                   'none is empty, everything is flushed at the end of the iteration.',
    'assumptions': ['Instant::now is non-decreasing', 'durations are modelled as integer ticks'],
    'trusted': ['mirsym MIR executor and its std model table', 'z3 / cvc5'],
}


def TASKS(tier):
    return time_window_tasks(tier, 'time_window')
