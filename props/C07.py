"""C07 -- aggregations equal a sequential fold."""
from props.ops import *   # noqa

META = {
    'explanation': 'Aggregations: the real Fold / KeyedFold operators are driven over every symbolic upstream '
                   'script within the bound; the user function is an uninterpreted function so the result '
                   'term identifies exactly the folded items and their order.',
    'assumptions': ['user functions are pure'],
    'trusted': ['mirsym MIR executor and its std model table', 'z3 / cvc5'],
}


def TASKS(tier):
    return fold_tasks(tier, 'fold') + keyed_fold_tasks(tier, 'keyed_fold') + two_phase_tasks(tier, 'two_phase')
