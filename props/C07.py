"""C07 -- aggregations equal a sequential fold."""
from props.ops import *   # noqa
from props.plan import agg_plan_harness, agg_plan_tasks   # noqa

META = {
    'explanation': 'Aggregations: the real Fold / KeyedFold operators are driven over every symbolic upstream '
                   'script within the bound; the user function is an uninterpreted function so the result '
                   'term identifies exactly the folded items and their order. The builders (fold, reduce, fold_assoc, '
                   'reduce_assoc, group_by_fold/reduce/sum/count/min/max, group_by + fold/reduce) are executed from MIR into a '
                   'logical plan which is evaluated over symbolic values spread over the replicas (props/plan.py). Keyed rich_map: the '
                   'state of the user function (a call counter per clone) is per key and sees exactly the earlier elements of its key.',
    'assumptions': ['user functions of the aggregations are pure'],
    'trusted': ['mirsym MIR executor and its std model table', 'z3 / cvc5'],
}


def TASKS(tier):
    return fold_tasks(tier, 'fold') + keyed_fold_tasks(tier, 'keyed_fold') + two_phase_tasks(tier, 'two_phase') + \
        agg_plan_tasks(tier, 'agg_plan') + rich_map_tasks(tier, 'rich_map')
