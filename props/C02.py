"""C02 -- every link delivers each element exactly once and in sending order."""
from props.start import *      # noqa
from props.end import *        # noqa

META = {
    'explanation': 'Links. Producer side: End + Batcher (Single / Fixed / Adaptive with an arbitrary clock) over '
                   'symbolic scripts: per downstream replica the concatenation of the batches handed to the network '
                   'sender is exactly the routed sequence, every batch stamped with the producer coordinate, nothing '
                   'left unsent at the end. Consumer side: Start over N producers and every arrival interleaving of '
                   'their batches: the elements of each producer come out completely, once, in order.',
    'assumptions': ['flume channels are FIFO and lossless', 'TCP is a reliable byte stream; remote_send/remote_recv '
                    'framing (bincode) is outside this check'],
    'trusted': ['mirsym MIR executor and its std model table', 'z3 / cvc5'],
}


def TASKS(tier):
    return end_tasks(tier, 'link_producer', ('batching',)) + \
        [t for t in start_tasks(tier, 'link_consumer', progress=False) if not t.params.get('adaptive')]


def classify(t, v):
    if t.factory == 'start_harness':
        return classify_start(t, v)
    return t.role
