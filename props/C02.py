"""C02 -- every link delivers each element exactly once and in sending order."""
import z3
from props.start import *      # noqa
from props.end import *        # noqa

META = {
    'explanation': 'Links. Producer side: End + Batcher (Single / Fixed / Adaptive with an arbitrary clock) over '
                   'symbolic scripts: per downstream replica the concatenation of the batches handed to the network '
                   'sender is exactly the routed sequence, every batch stamped with the producer coordinate, nothing '
                   'left unsent at the end. Consumer side: Start over N producers and every arrival interleaving of '
                   'their batches: the elements of each producer come out completely, once, in order. TCP framing: '
                   'remote_send followed by remote_recv over one byte stream (several messages back to back) returns the '
                   'same message for the same receiver endpoint and leaves the stream aligned.',
    'assumptions': ['flume channels are FIFO and lossless', 'TCP is a reliable byte stream',
                    'bincode is an injective encoding whose serialized_size agrees with serialize_into; messages < 4 GiB'],
    'trusted': ['mirsym MIR executor and its std model table', 'z3 / cvc5'],
}


def TASKS(tier):
    return end_tasks(tier, 'link_producer', ('batching',)) + \
        [t for t in start_tasks(tier, 'link_consumer', progress=False) if not t.params.get('adaptive')]


def classify(t, v):
    if t.factory == 'start_harness':
        return classify_start(t, v)
    return t.role


# ------------------------------------------------------------------------------------ TCP framing

from lib.runner import Task                               # noqa: E402
from mirsym.values import Int, Agg, Enum, Ref, Opaque      # noqa: E402
from mirsym.executor import PyObj, Unsupported             # noqa: E402
from mirsym.explore import check, Violation                # noqa: E402
from mirsym.models import zbool, ok, err, deref, values_eq  # noqa: E402
from mirsym.models_coll import VecModel                    # noqa: E402
from mirsym.models_wire import ByteBuf, Chunk              # noqa: E402
from mirsym import hlib                                    # noqa: E402


class Wire(PyObj):
    """the TCP byte stream: what `write_all` appends is what `read_exact` consumes, in order"""
    name = 'VerifWire'

    def __init__(self):
        self.chunks = []

    def trait_call(self, ex, trait, method, args):
        if method == 'write_all':
            buf = deref(args[1])
            if not isinstance(buf, ByteBuf):
                raise Unsupported('write_all of %r' % (buf,))
            self.chunks += buf.chunks
            return ok(Agg('tuple', None, []))
        if method == 'read':
            # a socket read may return fewer bytes than asked for: either the whole next frame part or a strict
            # prefix of it (the remainder stays on the stream)
            dst = args[1]
            if not self.chunks:
                return ok(Int('usize', 0))
            ch = self.chunks[0]
            want = Int('usize', len(dst)) if isinstance(dst, hlib.SliceRef) else deref(dst).total(ex)
            if ex.choose(2, 'short read') == 1:
                n = ex.fresh_int('usize', 'short_read')
                ex.assume(z3.And(z3.UGT(n.v, 0), z3.ULT(n.v, ch.length.z()), z3.ULT(n.v, want.z())))
                rest = Chunk('partial', None, ex.binop('Sub', ch.length, n))
                self.chunks[0] = rest
                part = Chunk('partial', None, n)
                if isinstance(dst, hlib.SliceRef):
                    ex.env.setdefault('wire_arrays', {})[id(dst.items)] = part
                else:
                    deref(dst).chunks[:] = [part]
                hlib.cover(ex, 'short_read')
                return ok(n)
            args = [args[0], dst]
            method = 'read_exact'
            r = self.trait_call(ex, trait, method, args)
            return ok(want) if r.variant == 'Ok' else r
        if method == 'read_exact':
            dst = args[1]
            if not self.chunks:
                return err(Opaque('io::Error(UnexpectedEof)'))
            ch = self.chunks[0]
            if isinstance(dst, hlib.SliceRef):
                want = Int('usize', len(dst))
            else:
                want = deref(dst).total(ex)
            same = ex.binop('Eq', want, ch.length)
            if not ex.valid(zbool(same)):
                raise Violation('receiver reads a frame part of %r bytes where the sender wrote %r bytes: the stream '
                                'loses its framing' % (want, ch.length))
            self.chunks.pop(0)
            if isinstance(dst, hlib.SliceRef):
                ex.env.setdefault('wire_arrays', {})[id(dst.items)] = ch
            else:
                deref(dst).chunks[:] = [ch]
            return ok(Agg('tuple', None, []))
        raise Unsupported('Wire ' + method)


def _native_framing(ex, nmsgs):
    """real remote_send / remote_recv over a byte stream handed out in small pieces (replay/net_remote.rs)"""
    runner, prof = ex.env['native']
    ex.env['native_used'] = True
    args = [7, 3, 1, 2, nmsgs]
    for i in range(nmsgs):
        args += [i, 40 + 25 * i]
    txt = runner('framing', args)[prof]
    ex.env['native_out'] = txt
    if txt == 'PANIC':
        from mirsym.executor import RustPanic
        raise RustPanic('the real remote_recv panicked on a stream delivered in 7-byte pieces')
    toks = txt.split()
    want = ['%d:%d:1' % (i, 40 + 25 * i) for i in range(nmsgs)] + ['REST', '0']
    if toks != want:
        raise Violation('framing round trip over a piecewise stream: got %r, expected %r' % (txt, ' '.join(want)))
    return {'native': txt}


def framing_harness(w, nmsgs):
    send = [f for f in w.prog.functions if f.name == 'remote_send'][0]
    recv = [f for f in w.prog.functions if f.name == 'remote_recv'][0]

    def h(ex):
        wire = Wire()
        sent = []
        if ex.env.get('native'):
            return _native_framing(ex, nmsgs)
        bc_host = ex.fresh_int('u64', 'dest_host')
        bc_block = ex.fresh_int('u64', 'dest_block')
        prev_block = ex.fresh_int('u64', 'prev_block')
        for i in range(nmsgs):
            dest = hlib.mk_struct(w, 'ReceiverEndpoint',
                                  coord=hlib.mk_struct(w, 'Coord', 'network::Coord', block_id=bc_block, host_id=bc_host,
                                                       replica_id=ex.fresh_int('u64', 'dest_replica%d' % i)),
                                  prev_block_id=prev_block)
            payload = ex.fresh_int('u64', 'payload%d' % i)
            msg = hlib.mk_struct(w, 'NetworkMessage', sender=hlib.coord(w, 7, 0, 0),
                                 data=Enum('NetworkData', 'Batch', 0, [VecModel([hlib.se('Item', payload)])]))
            L = None
            ex.call_function(send, [msg, dest, Ref([wire], 0), 'addr'])
            sent.append((dest, msg))
        # every message is < 4 GiB (the header stores the size as u32; larger messages panic on the sender)
        demux = hlib.mk_struct(w, 'DemuxCoord', coord=hlib.mk_struct(w, 'BlockCoord', block_id=bc_block, host_id=bc_host),
                               prev_block_id=prev_block)
        for i in range(nmsgs):
            r = ex.call_function(recv, [demux, Ref([wire], 0), 'addr'])
            if r.variant != 'Some':
                raise Violation('remote_recv failed on a complete frame', hlib._wit(ex))
            d2, m2 = r.fields[0].fields
            check(ex, zbool(values_eq(ex, d2, sent[i][0])),
                  'message delivered to a different receiver endpoint than it was sent to')
            check(ex, zbool(values_eq(ex, m2, sent[i][1])), 'message altered in transit')
            hlib.cover(ex, 'round_trip')
        if wire.chunks:
            raise Violation('bytes left on the stream after all messages were received', hlib._wit(ex))
        return {'nmsgs': nmsgs}
    return h


_link_tasks = TASKS


def TASKS(tier):     # noqa: F811
    ts = _link_tasks(tier)
    for n in ([1, 2] if tier == 'quick' else [1, 2, 3]):
        ts.append(Task('framing_%d' % n, 'framing_harness', {'nmsgs': n},
                       bounds='remote_send x %d then remote_recv x %d over one byte stream: destination replica, block, '
                              'host, previous block and payload symbolic; bincode = injective encoding with a symbolic '
                              'message length (< 2^32) and the fixed-int header length derived from the header fields' %
                              (n, n), role='framing', opts={'covers': ['round_trip']},
                       budget=100))
    return ts
