"""C02 -- every link delivers each element exactly once and in sending order."""
import z3
from props.start import *      # noqa
from props.end import *        # noqa

META = {
    'explanation': 'Links. Producer side: End + Batcher (Single / Fixed / Adaptive with an arbitrary clock) over '
                   'symbolic scripts: per downstream replica the concatenation of the batches handed to the network '
                   'sender is exactly the routed sequence, every batch stamped with the producer coordinate, nothing '
                   'left unsent at the end. Consumer side: Start over N producers and every arrival interleaving of '
                   'their batches: the elements of each producer come out completely, once, in order. TCP framing: '
                   'remote_send followed by remote_recv over one byte stream (several messages back to back) returns the '
                   'same message for the same receiver endpoint and leaves the stream aligned. The loops of the multiplexer '
                   'and demultiplexer threads (mux_thread, demux_thread) executed over a scripted queue / connection: every '
                   'message goes to exactly the recipient it is addressed to, completely, once, in order per recipient, also '
                   'when a recipient queue refuses timed or non-blocking sends. channel::Receiver::select / select_timeout over model '
                   'flume receivers: nothing that arrived is lost or reordered, for every timeout. Connection set-up, the threads themselves '
                   'and TCP are not covered.',
    'assumptions': ['flume channels are FIFO and lossless', 'TCP is a reliable byte stream',
                    'stubs in the mux / demux harnesses: remote_recv / remote_send (scripted; the real ones are decided by the '
                    'framing tasks), TcpStream (peer_addr, shutdown, flush), the recipients\' flume senders',
                    'flume::Receiver / flume::Selector are models: FIFO queues of arrived messages, wait picks any ready arm',
                    'bincode is an injective encoding whose serialized_size agrees with serialize_into; messages < 4 GiB'],
    'trusted': ['mirsym MIR executor and its std model table', 'z3 / cvc5'],
}


def TASKS(tier):
    return end_tasks(tier, 'link_producer', ('batching',)) + \
        [t for t in start_tasks(tier, 'link_consumer', progress=False) if not t.params.get('adaptive')]


def classify(t, v):
    if t.factory == 'start_harness':
        return classify_start(t, v)
    return t.role


# ------------------------------------------------------------------------------------ TCP framing

from lib.runner import Task                               # noqa: E402
from mirsym.values import Int, Agg, Enum, Ref, Opaque      # noqa: E402
from mirsym.executor import PyObj, Unsupported             # noqa: E402
from mirsym.explore import check, Violation                # noqa: E402
from mirsym.models import zbool, ok, err, deref, values_eq  # noqa: E402
from mirsym.models_coll import VecModel                    # noqa: E402
from mirsym.models_wire import ByteBuf, Chunk              # noqa: E402
from mirsym import hlib                                    # noqa: E402


class Wire(PyObj):
    """the TCP byte stream: what `write_all` appends is what `read_exact` consumes, in order"""
    name = 'VerifWire'

    def __init__(self):
        self.chunks = []

    def trait_call(self, ex, trait, method, args):
        if method == 'write_all':
            buf = deref(args[1])
            if not isinstance(buf, ByteBuf):
                raise Unsupported('write_all of %r' % (buf,))
            self.chunks += buf.chunks
            return ok(Agg('tuple', None, []))
        if method == 'read':
            # a socket read may return fewer bytes than asked for: either the whole next frame part or a strict
            # prefix of it (the remainder stays on the stream)
            dst = args[1]
            if not self.chunks:
                return ok(Int('usize', 0))
            ch = self.chunks[0]
            want = Int('usize', len(dst)) if isinstance(dst, hlib.SliceRef) else deref(dst).total(ex)
            if ex.choose(2, 'short read') == 1:
                n = ex.fresh_int('usize', 'short_read')
                ex.assume(z3.And(z3.UGT(n.v, 0), z3.ULT(n.v, ch.length.z()), z3.ULT(n.v, want.z())))
                rest = Chunk('partial', None, ex.binop('Sub', ch.length, n))
                self.chunks[0] = rest
                part = Chunk('partial', None, n)
                if isinstance(dst, hlib.SliceRef):
                    ex.env.setdefault('wire_arrays', {})[id(dst.items)] = part
                else:
                    deref(dst).chunks[:] = [part]
                hlib.cover(ex, 'short_read')
                return ok(n)
            args = [args[0], dst]
            method = 'read_exact'
            r = self.trait_call(ex, trait, method, args)
            return ok(want) if r.variant == 'Ok' else r
        if method == 'read_exact':
            dst = args[1]
            if not self.chunks:
                return err(Opaque('io::Error(UnexpectedEof)'))
            ch = self.chunks[0]
            if isinstance(dst, hlib.SliceRef):
                want = Int('usize', len(dst))
            else:
                want = deref(dst).total(ex)
            same = ex.binop('Eq', want, ch.length)
            if not ex.valid(zbool(same)):
                raise Violation('receiver reads a frame part of %r bytes where the sender wrote %r bytes: the stream '
                                'loses its framing' % (want, ch.length))
            self.chunks.pop(0)
            if isinstance(dst, hlib.SliceRef):
                ex.env.setdefault('wire_arrays', {})[id(dst.items)] = ch
            else:
                deref(dst).chunks[:] = [ch]
            return ok(Agg('tuple', None, []))
        raise Unsupported('Wire ' + method)


def _native_framing(ex, nmsgs):
    """real remote_send / remote_recv over a byte stream handed out in small pieces (replay/net_remote.rs)"""
    runner, prof = ex.env['native']
    ex.env['native_used'] = True
    args = [7, 3, 1, 2, nmsgs]
    for i in range(nmsgs):
        args += [i, 40 + 25 * i]
    txt = runner('framing', args)[prof]
    ex.env['native_out'] = txt
    if txt == 'PANIC':
        from mirsym.executor import RustPanic
        raise RustPanic('the real remote_recv panicked on a stream delivered in 7-byte pieces')
    toks = txt.split()
    want = ['%d:%d:1' % (i, 40 + 25 * i) for i in range(nmsgs)] + ['REST', '0']
    if toks != want:
        raise Violation('framing round trip over a piecewise stream: got %r, expected %r' % (txt, ' '.join(want)))
    return {'native': txt}


def framing_harness(w, nmsgs):
    send = [f for f in w.prog.functions if f.name == 'remote_send'][0]
    recv = [f for f in w.prog.functions if f.name == 'remote_recv'][0]

    def h(ex):
        wire = Wire()
        sent = []
        if ex.env.get('native'):
            return _native_framing(ex, nmsgs)
        bc_host = ex.fresh_int('u64', 'dest_host')
        bc_block = ex.fresh_int('u64', 'dest_block')
        prev_block = ex.fresh_int('u64', 'prev_block')
        for i in range(nmsgs):
            dest = hlib.mk_struct(w, 'ReceiverEndpoint',
                                  coord=hlib.mk_struct(w, 'Coord', 'network::Coord', block_id=bc_block, host_id=bc_host,
                                                       replica_id=ex.fresh_int('u64', 'dest_replica%d' % i)),
                                  prev_block_id=prev_block)
            payload = ex.fresh_int('u64', 'payload%d' % i)
            msg = hlib.mk_struct(w, 'NetworkMessage', sender=hlib.coord(w, 7, 0, 0),
                                 data=Enum('NetworkData', 'Batch', 0, [VecModel([hlib.se('Item', payload)])]))
            L = None
            ex.call_function(send, [msg, dest, Ref([wire], 0), 'addr'])
            sent.append((dest, msg))
        # every message is < 4 GiB (the header stores the size as u32; larger messages panic on the sender)
        demux = hlib.mk_struct(w, 'DemuxCoord', coord=hlib.mk_struct(w, 'BlockCoord', block_id=bc_block, host_id=bc_host),
                               prev_block_id=prev_block)
        for i in range(nmsgs):
            r = ex.call_function(recv, [demux, Ref([wire], 0), 'addr'])
            if r.variant != 'Some':
                raise Violation('remote_recv failed on a complete frame', hlib._wit(ex))
            d2, m2 = r.fields[0].fields
            check(ex, zbool(values_eq(ex, d2, sent[i][0])),
                  'message delivered to a different receiver endpoint than it was sent to')
            check(ex, zbool(values_eq(ex, m2, sent[i][1])), 'message altered in transit')
            hlib.cover(ex, 'round_trip')
        if wire.chunks:
            raise Violation('bytes left on the stream after all messages were received', hlib._wit(ex))
        return {'nmsgs': nmsgs}
    return h


_link_tasks = TASKS


def TASKS(tier):     # noqa: F811
    ts = _link_tasks(tier)
    for n in ([1, 2] if tier == 'quick' else [1, 2, 3]):
        ts.append(Task('framing_%d' % n, 'framing_harness', {'nmsgs': n},
                       bounds='remote_send x %d then remote_recv x %d over one byte stream: destination replica, block, '
                              'host, previous block and payload symbolic; bincode = injective encoding with a symbolic '
                              'message length (< 2^32) and the fixed-int header length derived from the header fields' %
                              (n, n), role='framing', opts={'covers': ['round_trip']},
                       budget=100))
    return ts


# ------------------------------------------------------------------------------------ demultiplexer loop

class QueueTx(PyObj):
    """flume::Sender of one local recipient (bounded queue, consumer arbitrarily slow): `send` blocks until there is
    room and then succeeds; the non-blocking / timed variants may fail at any time and hand the message back"""
    name = 'Sender'

    def __init__(self, idx):
        self.idx = idx
        self.got = []
        self.refused = 0

    def trait_call(self, ex, trait, method, args):
        if method == 'send':
            self.got.append(args[1])
            return ok(hlib.unit())
        if method in ('try_send', 'send_timeout', 'send_deadline'):
            if ex.choose(2, 'queue of recipient %d full' % self.idx) == 1:
                self.refused += 1
                if method == 'try_send':
                    return err(Enum('TrySendError', 'Full', 0, [args[1]]))
                return err(Enum('SendTimeoutError', 'Timeout', 0, [args[1]]))
            self.got.append(args[1])
            return ok(hlib.unit())
        if method in ('is_full', 'is_empty'):
            return ex.choose(2, method) == 1
        if trait == 'Clone':
            return self
        raise Unsupported('QueueTx %s::%s' % (trait, method))


class TcpStub(PyObj):
    name = 'TcpStream'

    def trait_call(self, ex, trait, method, args):
        if method == 'peer_addr':
            return err(Opaque('io::Error'))
        if method in ('shutdown', 'set_nodelay', 'flush'):
            return ok(hlib.unit())
        raise Unsupported('TcpStub %s' % method)


def demux_harness(w, n_endpoints, nmsgs):
    """demux_thread: every message taken off the connection (remote_recv: decided under `framing`) reaches the queue of
    exactly the recipient it is addressed to, and each recipient sees its messages in connection order"""
    from mirsym.models_coll import MapModel
    fs = [f for f in w.prog.functions if f.name.endswith('demux_thread') and 'closure' not in f.name]
    if len(fs) != 1:
        raise Unsupported('demux_thread not found')
    demux = fs[0]
    new_batch = w.impls[(None, 'NetworkMessage')]['new_batch'][0]
    hlib.check_se_table(w)

    def endpoint(r):
        return hlib.mk_struct(w, 'ReceiverEndpoint', coord=hlib.coord(w, 2, 0, r), prev_block_id=Int('u64', 1))

    def h(ex):
        dests = [ex.choose(n_endpoints, 'dest of message %d' % j) if n_endpoints > 1 else 0 for j in range(nmsgs)]
        if ex.env.get('native'):
            runner, prof = ex.env['native']
            ex.env['native_used'] = True
            txt = runner('demux', [n_endpoints, nmsgs] + dests, timeout=60)[prof]
            ex.env['native_out'] = txt
            if txt == 'PANIC' or txt.startswith(('BADARGS', 'UNKNOWN', 'NORESULT')):
                raise Unsupported('native driver: ' + txt)
            secs = txt.replace(' TIMEOUT', '').split('|')
            got = [[int(x) for x in s.split() if x != '-'] for s in secs]
            judge(ex, dests, got, {'native': txt})
            if 'TIMEOUT' in txt:
                raise Violation('the real demultiplexer thread does not finish after the connection was closed (%s)' % txt,
                                hlib._wit(ex))
            return {'native': txt}
        txs = [QueueTx(r) for r in range(n_endpoints)]
        senders = MapModel('HashMap', [[endpoint(r), Agg('struct', 'channel::Sender', [txs[r]], ['0'])]
                                       for r in range(n_endpoints)])
        msgs = [ex.call_function(new_batch, [VecModel([hlib.se('Item', Int('u64', j + 1))]), hlib.coord(w, 1, 0, 0)])
                for j in range(nmsgs)]
        pos = [0]

        def fake_remote_recv(ex, c, a):
            from mirsym.models import some, none
            if pos[0] >= nmsgs:
                return none()
            j = pos[0]
            pos[0] += 1
            return some(Agg('tuple', None, [endpoint(dests[j]), msgs[j]]))
        ex.env['fn_overrides'] = {'remote_recv': fake_remote_recv}
        coord = hlib.mk_struct(w, 'DemuxCoord', coord=hlib.mk_struct(w, 'BlockCoord', block_id=Int('u64', 2), host_id=Int('u64', 0)),
                               prev_block_id=Int('u64', 1))
        ex.call_function(demux, [coord, senders, TcpStub()])
        got = []
        for t in txs:
            ids = []
            for m in t.got:
                data = deref(m).get('data')
                els = data.fields[0].items if isinstance(data, Enum) else data.items
                ids += [e.fields[0].v for e in els if e.variant == 'Item']
            got.append(ids)
        judge(ex, dests, got, {'dests': dests, 'delivered': got, 'refusals': [t.refused for t in txs]})
        if any(len(g) > 1 for g in got):
            hlib.cover(ex, 'several_to_one')
        return {'dests': dests, 'delivered': got}

    def judge(ex, dests, got, extra):
        for r in range(n_endpoints):
            want = [j + 1 for j, d in enumerate(dests) if d == r]
            g = got[r] if r < len(got) else []
            if sorted(g) != want:
                raise Violation('recipient %d received %s, addressed to it: %s (lost, duplicated or misrouted message)' %
                                (r, g, want), hlib._wit(ex), extra)
            if g != want:
                raise Violation('recipient %d received its messages out of connection order: %s instead of %s' % (r, g, want),
                                hlib._wit(ex), extra)
    return h


_framing_tasks = TASKS


def TASKS(tier):     # noqa: F811
    ts = _framing_tasks(tier)
    for ne, nm in ([(2, 3)] if tier == 'quick' else [(2, 4), (3, 3)]):
        ts.append(Task('demux_%de_%dm' % (ne, nm), 'demux_harness', {'n_endpoints': ne, 'nmsgs': nm},
                       bounds='demux_thread over a connection carrying %d messages addressed to any of %d local recipients '
                              '(remote_recv stubbed: the framing is decided separately); recipient queues may refuse any '
                              'non-blocking / timed send' % (nm, ne), role='demux', opts={'covers': ['several_to_one']}))
    return ts


# ------------------------------------------------------------------------------------ multiplexer loop

class ScriptedRx(PyObj):
    """channel::Receiver the multiplexer thread reads from: the local senders' (dest, message) pairs, then closed"""
    name = 'Receiver'

    def __init__(self, items):
        self.items = list(items)

    def trait_call(self, ex, trait, method, args):
        if method in ('recv', 'recv_timeout'):
            if self.items:
                return ok(self.items.pop(0))
            return err(Enum('channel::RecvError', 'Disconnected', 0, []) if method == 'recv' else
                       Enum('channel::RecvTimeoutError', 'Disconnected', 1, []))
        if method == 'try_recv':
            if self.items and ex.choose(2, 'message already queued') == 0:
                return ok(self.items.pop(0))
            return err(Enum('channel::TryRecvError', 'Empty' if self.items else 'Disconnected', 0 if self.items else 1, []))
        raise Unsupported('ScriptedRx %s' % method)


def mux_harness(w, n_endpoints, nmsgs):
    """mux_thread: what the local senders queued goes onto the connection completely, once, in queue order, each
    message with its own destination (remote_send: decided under `framing`)"""
    fs = [f for f in w.prog.functions if f.name.endswith('mux_thread') and 'demux' not in f.name and 'closure' not in f.name]
    if len(fs) != 1:
        raise Unsupported('mux_thread not found')
    mux = fs[0]
    new_batch = w.impls[(None, 'NetworkMessage')]['new_batch'][0]
    hlib.check_se_table(w)

    def h(ex):
        dests = [ex.choose(n_endpoints, 'dest of message %d' % j) if n_endpoints > 1 else 0 for j in range(nmsgs)]
        want = ['%d:%d' % (d, j + 1) for j, d in enumerate(dests)]
        if ex.env.get('native'):
            runner, prof = ex.env['native']
            ex.env['native_used'] = True
            txt = runner('mux', [n_endpoints, nmsgs] + dests, timeout=60)[prof]
            ex.env['native_out'] = txt
            if txt == 'PANIC' or txt.startswith(('BADARGS', 'UNKNOWN', 'NORESULT')):
                raise Unsupported('native driver: ' + txt)
            got = [t for t in txt.split() if t != '-']
        else:
            items = []
            for j in range(nmsgs):
                ep = hlib.mk_struct(w, 'ReceiverEndpoint', coord=hlib.coord(w, 2, 0, dests[j]), prev_block_id=Int('u64', 1))
                m = ex.call_function(new_batch, [VecModel([hlib.se('Item', Int('u64', j + 1))]), hlib.coord(w, 1, 0, 0)])
                items.append(Agg('tuple', None, [ep, m]))
            wire = []

            def fake_remote_send(ex, c, a):
                msg, dest = deref(a[0]), deref(a[1])
                data = msg.get('data')
                els = data.fields[0].items if isinstance(data, Enum) else data.items
                wire.append('%d:%s' % (dest.get('coord').get('replica_id').v,
                                       '+'.join(str(e.fields[0].v) for e in els if e.variant == 'Item')))
                return hlib.unit()
            ex.env['fn_overrides'] = {'remote_send': fake_remote_send}
            coord = hlib.mk_struct(w, 'DemuxCoord', coord=hlib.mk_struct(w, 'BlockCoord', block_id=Int('u64', 2), host_id=Int('u64', 0)),
                                   prev_block_id=Int('u64', 1))
            rx = Agg('struct', 'channel::Receiver', [ScriptedRx(items)], ['0'])
            ex.call_function(mux, [coord, rx, TcpStub()])
            got = wire
        if got != want:
            raise Violation('the multiplexer put %s on the connection, the local senders queued %s' % (got, want),
                            hlib._wit(ex), {'dests': dests, 'wire': got})
        hlib.cover(ex, 'sent')
        return {'dests': dests, 'wire': got}
    return h


_demux_tasks = TASKS


def TASKS(tier):     # noqa: F811
    ts = _demux_tasks(tier)
    for ne, nm in ([(2, 3)] if tier == 'quick' else [(2, 4), (3, 3)]):
        ts.append(Task('mux_%de_%dm' % (ne, nm), 'mux_harness', {'n_endpoints': ne, 'nmsgs': nm},
                       bounds='mux_thread draining a queue of %d messages for any of %d remote recipients onto one connection '
                              '(remote_send stubbed: the framing is decided separately)' % (nm, ne), role='mux',
                       opts={'covers': ['sent']}))
    return ts


# ------------------------------------------------------------------------------------ channel wrappers (select)

class FlumeRx(PyObj):
    """flume::Receiver holding the messages that have already arrived (FIFO); closed when `closed`"""
    name = 'Receiver'

    def __init__(self, tag, msgs):
        self.tag, self.q = tag, list(msgs)
        self.taken = []

    def pop(self):
        m = self.q.pop(0)
        self.taken.append(m)
        return m

    def trait_call(self, ex, trait, method, args):
        if method == 'try_recv':
            return ok(self.pop()) if self.q else err(Enum('TryRecvError', 'Empty', 0, []))
        if method in ('recv_timeout', 'recv_deadline'):
            return ok(self.pop()) if self.q else err(Enum('RecvTimeoutError', 'Timeout', 0, []))
        if method == 'recv':
            if not self.q:
                raise Violation('blocking recv on a channel on which nothing will arrive')
            return ok(self.pop())
        if method in ('is_empty',):
            return not self.q
        if method == 'len':
            return Int('usize', len(self.q))
        raise Unsupported('FlumeRx %s' % method)


class FlumeSelector(PyObj):
    """flume::Selector: `wait` returns the handler result of one READY receiver (any of them: fork); `wait_timeout`
    times out only when none is ready"""
    name = 'Selector'

    def __init__(self):
        self.arms = []

    def trait_call(self, ex, trait, method, args):
        if method == 'recv':
            self.arms.append((deref(args[1]), args[2]))
            return self
        if method in ('wait', 'wait_timeout', 'wait_deadline'):
            ready = [(rx, f) for rx, f in self.arms if rx.q]
            if not ready:
                if method == 'wait':
                    raise Violation('blocking select on channels on which nothing will arrive')
                return err(Enum('SelectError', 'Timeout', 0, []))
            rx, f = ready[ex.choose(len(ready), 'select: which ready channel') if len(ready) > 1 else 0]
            r = ex.call_value(f, [ok(rx.pop())])
            return r if method == 'wait' else ok(r)
        raise Unsupported('FlumeSelector %s' % method)


def select_harness(w, na, nb, timed):
    """channel::Receiver::select / select_timeout (what the two-input Start receives through) called until both
    channels are drained: every message that had arrived on either channel is returned exactly once, in FIFO order per
    channel, tagged with the right side; a timeout is reported only when neither channel has a message"""
    fn = w.impls[(None, 'Receiver')]['select_timeout' if timed else 'select']
    fn = [f for f in fn if 'channel' in f.name and 'Unbounded' not in f.header.split('(')[1].split(',')[0]][0]
    w.models['Selector::new'] = lambda ex, c, a: FlumeSelector()

    def h(ex):
        if ex.env.get('native'):
            runner, prof = ex.env['native']
            ex.env['native_used'] = True
            tmo = next((v for k, v in (ex.env.get('pin') or {}).items() if k.startswith('timeout_ns')), 200000)
            txt = runner('chan_select', [int(timed), int(tmo) if timed else 0, na, nb])[prof]
            ex.env['native_out'] = txt
            if txt == 'PANIC' or txt.startswith(('BADARGS', 'UNKNOWN', 'NORESULT')):
                raise Unsupported('native driver: ' + txt)
            got = txt.split()
            judge(ex, [t for t in got if t != 'T'], got.count('T'), {'native': txt})
            return {'native': txt}
        qa = FlumeRx('A', [Int('u64', 100 + i) for i in range(na)])
        qb = FlumeRx('B', [Int('u64', 200 + i) for i in range(nb)])
        ra = Agg('struct', 'channel::Receiver', [qa], ['0'])
        rb = Agg('struct', 'channel::Receiver', [qb], ['0'])
        got, timeouts = [], 0
        tmo = None
        if timed:
            tmo = ex.fresh_int('u64', 'timeout_ns')
            ex.assume(z3.And(z3.UGE(tmo.v, 1000), z3.ULE(tmo.v, 1000000000)))
        for _ in range(na + nb + 2):
            if not qa.q and not qb.q:
                break
            r = ex.call_function(fn, [Ref([ra], 0), Ref([rb], 0)] + ([tmo] if timed else []))
            if timed:
                if r.variant != 'Ok':
                    timeouts += 1
                    continue
                r = r.fields[0]
            inner = r.fields[0]
            if inner.variant != 'Ok':
                raise Violation('select reports a closed channel although messages are pending', hlib._wit(ex))
            got.append('%s%d' % (r.variant, inner.fields[0].v))
        judge(ex, got, timeouts, {'received': got, 'timeouts': timeouts, 'left_in_A': len(qa.q), 'left_in_B': len(qb.q),
                                  'taken_from_A': [m.v for m in qa.taken], 'taken_from_B': [m.v for m in qb.taken]})
        hlib.cover(ex, 'drained')
        return {'received': got}

    def judge(ex, got, timeouts, extra):
        wa = ['A%d' % (100 + i) for i in range(na)]
        wb = ['B%d' % (200 + i) for i in range(nb)]
        if [g for g in got if g.startswith('A')] != wa or [g for g in got if g.startswith('B')] != wb:
            raise Violation('select over two channels: received %s, the channels held %s and %s (a message was lost, '
                            'duplicated, reordered or attributed to the wrong side)' % (got, wa, wb), hlib._wit(ex), extra)
        if timeouts:
            raise Violation('select_timeout reported %d timeout(s) although a message was pending' % timeouts,
                            hlib._wit(ex), extra)
    return h


_mux_tasks = TASKS


def TASKS(tier):     # noqa: F811
    ts = _mux_tasks(tier)
    for timed in (False, True):
        for na, nb in ([(2, 2)] if tier == 'quick' else [(2, 2), (3, 2), (1, 3)]):
            ts.append(Task('select_%s_%dx%d' % ('timeout' if timed else 'blocking', na, nb), 'select_harness',
                           {'na': na, 'nb': nb, 'timed': timed},
                           bounds='channel::Receiver::%s called until two channels holding %d and %d messages are drained; '
                                  'flume::Selector modelled (any ready channel may be chosen)%s' %
                                  ('select_timeout' if timed else 'select', na, nb,
                                   ', timeout symbolic in 1 us .. 1 s' if timed else ''), role='channel_select',
                           opts={'covers': ['drained']}))
    return ts
