"""C18 -- batching never withholds data: bounded delay if adaptive, flushed at round end."""
from props.start import *      # noqa
from props.end import *        # noqa
from props.C15 import channel_source_harness, ChanRx      # noqa
from props.binary import binstart_flush_harness, binstart_flush_tasks      # noqa

META = {
    'explanation': 'Batching. End + Batcher for every batch mode (clock arbitrary): everything routed before a '
                   'FlushAndRestart / FlushBatch / Terminate has left the batcher when End::next returns it, '
                   'FlushAndRestart is always the last element of its batch, an element enqueued in adaptive mode after '
                   'max_delay has elapsed is flushed at once, and the delivered sequence per link is the same for every '
                   'batch mode. Start (single and two-input): a receive timeout yields exactly one FlushBatch and the next wait is '
                   'blocking; the block never waits without a timeout while elements it handed downstream are unflushed. '
                   'ChannelSource emits FlushBatch before it blocks on an empty channel. The wall-clock bound ("within a '
                   'small multiple of max_delay" across threads) is outside the technique.',
    'assumptions': ['the clock is non-decreasing'],
    'trusted': ['mirsym MIR executor and its std model table', 'z3 / cvc5'],
}


def TASKS(tier):
    from lib.runner import Task
    ts = end_tasks(tier, 'batching', ('batching',))
    ts += [t for t in start_tasks(tier, 'start_timeout', progress=False) if t.params.get('adaptive')]
    ts += binstart_flush_tasks(tier, 'binstart_timeout')
    for n in ([1, 2] if tier == 'quick' else [1, 2, 3]):
        ts.append(Task('channel_source_%d' % n, 'channel_source_harness', {'n': n},
                       bounds='ChannelSource::next until Terminate, %d items, slow producer (0/1/8/9/10 empty polls '
                              'before each item)' % n, role='channel_source', opts={'covers': ['flush_batch']}))
    return ts


def classify(t, v):
    if t.factory == 'start_harness':
        return classify_start(t, v)
    if t.factory == 'binstart_flush_harness' and '(flushbatch_before_terminate)' in v['msg']:
        return classify_start(t, v)      # same call site: the timeout arm of Start::next, whatever the receiver
    return t.role
